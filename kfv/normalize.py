"""Canonicalisation of module ASTs before any rule looks at them.

Every transformation maps two spellings of the same behaviour to one AST shape,
so that the rules (which are written against shapes) agree on them:

  N1  `x: T = v` inside a function           -> `x = v`  (annotation kept in `_kfv_ann`)
  N2  f-strings / `+` of string constants     -> one constant
  N3  `getattr(o, 'c')`, `setattr(o, 'c', v)`  -> `o.c`, `o.c = v`
  N4  `for k in <constant tuple>: body`       -> body copies with k substituted
      (literal tuple/list of constants or simple expressions, or a module-level
      name bound once to such a literal; no break/continue/else; the loop
      variable is not read after the loop)
  N5  `v = self.<field>` followed by reads of `v` in the same block with only
      pure builtin calls in between           -> the reads use `self.<field>`

Positions of copied nodes are kept (type lookups are positional).
"""
from __future__ import annotations

import ast
import copy

PURE_BUILTINS = {'AssertionError', 'ValueError', 'RuntimeError', 'TypeError', 'KeyError', 'NotImplementedError', 'callable', 'isinstance', 'len', 'str', 'repr', 'int', 'float', 'bool', 'type', 'hasattr', 'id', 'print'}
MAX_UNROLL = 16


def _const_seq(e: ast.expr, consts: dict[str, ast.expr]) -> list[ast.expr] | None:
    if isinstance(e, ast.Name) and e.id in consts:
        e = consts[e.id]
    elif isinstance(e, ast.Attribute) and isinstance(e.value, ast.Name) and ('.' + e.attr) in consts and (e.value.id in ('self', 'cls') or e.value.id[:1].isupper()):
        e = consts['.' + e.attr]          # class-level constant table read through self / cls / the class
    if isinstance(e, ast.Call) and isinstance(e.func, ast.Attribute) and e.func.attr == 'items' and not e.args and not e.keywords:
        # the items of a constant dict table, in insertion order
        d = e.func.value
        tab = _DICTS.get(d.id) if isinstance(d, ast.Name) else (_DICTS.get(d.attr) if isinstance(d, ast.Attribute) and isinstance(d.value, ast.Name) and d.value.id in ('self', 'cls') else None)
        if tab is not None and 0 < len(tab.keys) <= MAX_UNROLL:
            return [ast.copy_location(ast.Tuple(elts=[copy.deepcopy(k), copy.deepcopy(v)], ctx=ast.Load()), e) for k, v in zip(tab.keys, tab.values)]
    if isinstance(e, (ast.Tuple, ast.List)) and 0 < len(e.elts) <= MAX_UNROLL:
        if all(_simple(x) or (isinstance(x, ast.Tuple) and all(_simple(y) for y in x.elts)) for x in e.elts):
            return list(e.elts)
    return None


_NT: dict[str, list[tuple[str, ast.expr | None]]] = {}     # NamedTuple / frozen record classes: name -> [(field, default)]


def _nt_fields(e: ast.expr) -> dict[str, ast.expr] | None:
    """e is a construction `R(a, b, k=c)` of a NamedTuple class with simple arguments: field -> argument."""
    if not (isinstance(e, ast.Call) and isinstance(e.func, ast.Name) and e.func.id in _NT):
        return None
    fields = _NT[e.func.id]
    if len(e.args) > len(fields) or any(isinstance(a, ast.Starred) for a in e.args) or any(k.arg is None for k in e.keywords):
        return None
    out: dict[str, ast.expr] = {}
    for (nm, _d), a in zip(fields, e.args):
        out[nm] = a
    for k in e.keywords:
        if k.arg in out or k.arg not in {f for f, _ in fields}:
            return None
        out[k.arg] = k.value
    for nm, d in fields:
        if nm not in out:
            if d is None:
                return None
            out[nm] = d
    if not all(_simple(v) for v in out.values()):
        return None
    return out


_CUR_CONSTS: dict[str, ast.expr] = {}
PAIR_ATTRS = {'kernel_size', 'stride', 'padding', 'dilation'}      # torch.nn.Conv2d normalises these to pairs (A3)


def _known_len(e: ast.expr, fn: ast.AST) -> int | None:
    if isinstance(e, (ast.Tuple, ast.List)) and not any(isinstance(x, ast.Starred) for x in e.elts):
        return len(e.elts)
    src = e
    if isinstance(e, ast.Name):
        defs = [n for n in ast.walk(fn) if isinstance(n, ast.Assign) and len(n.targets) == 1 and isinstance(n.targets[0], ast.Name) and n.targets[0].id == e.id]
        nst = sum(1 for n in ast.walk(fn) if isinstance(n, ast.Name) and n.id == e.id and isinstance(n.ctx, (ast.Store, ast.Del)))
        if len(defs) != 1 or nst != 1:
            return None
        src = defs[0].value
    if isinstance(src, ast.Call) and isinstance(src.func, ast.Name) and src.func.id == 'cast' and len(src.args) == 2:
        src = src.args[1]
    if isinstance(src, ast.Attribute) and src.attr in PAIR_ATTRS and isinstance(src.value, ast.Attribute) and src.value.attr == 'module':
        return 2
    return None


def _elem_of(e: ast.expr, j: int) -> ast.expr:
    if isinstance(e, (ast.Tuple, ast.List)):
        return copy.deepcopy(e.elts[j])
    return ast.copy_location(ast.Subscript(value=copy.deepcopy(e), slice=ast.Constant(value=j), ctx=ast.Load()), e)


def _iter_seq(e: ast.expr, fn: ast.AST) -> list[ast.expr] | None:
    """Elements of `zip(a, b)`, `enumerate(x, start=c)` or a pair-valued local, when the lengths are known."""
    if isinstance(e, ast.Call) and isinstance(e.func, ast.Name) and e.func.id == 'zip' and e.args and not e.keywords:
        lens = [_known_len(a, fn) for a in e.args]
        if None in lens or len(set(lens)) != 1:
            return None
        return [ast.copy_location(ast.Tuple(elts=[_elem_of(a, j) for a in e.args], ctx=ast.Load()), e) for j in range(lens[0])]
    if isinstance(e, ast.Call) and isinstance(e.func, ast.Name) and e.func.id == 'enumerate' and e.args:
        start = 0
        extra = list(e.args[1:]) + [k.value for k in e.keywords if k.arg == 'start']
        if len(extra) > 1 or any(k.arg != 'start' for k in e.keywords):
            return None
        if extra:
            if not (isinstance(extra[0], ast.Constant) and isinstance(extra[0].value, int)):
                return None
            start = extra[0].value
        inner = _iter_seq(e.args[0], fn)
        if inner is None:
            return None
        return [ast.copy_location(ast.Tuple(elts=[ast.Constant(value=start + j), x], ctx=ast.Load()), e) for j, x in enumerate(inner)]
    if isinstance(e, ast.Name) and e.id in _CUR_CONSTS and isinstance(_CUR_CONSTS[e.id], (ast.Tuple, ast.List)) and len(_CUR_CONSTS[e.id].elts) <= MAX_UNROLL:
        return [copy.deepcopy(x) for x in _CUR_CONSTS[e.id].elts]        # a module-level constant table
    if isinstance(e, ast.Name):
        n = _known_len(e, fn)
        if n is not None:
            return [_elem_of(e, j) for j in range(n)]
        # a local bound once to a zip / enumerate and consumed only here
        defs = [x for x in ast.walk(fn) if isinstance(x, ast.Assign) and len(x.targets) == 1 and isinstance(x.targets[0], ast.Name) and x.targets[0].id == e.id]
        occ = sum(1 for x in ast.walk(fn) if isinstance(x, ast.Name) and x.id == e.id)
        if len(defs) == 1 and occ == 2 and isinstance(defs[0].value, ast.Call):
            return _iter_seq(defs[0].value, fn)
    return None


def _bind_target(t: ast.expr, v: ast.expr, m: dict[str, ast.expr]) -> bool:
    if isinstance(t, ast.Name):
        m[t.id] = v
        return True
    if isinstance(t, (ast.Tuple, ast.List)) and isinstance(v, (ast.Tuple, ast.List)) and len(t.elts) == len(v.elts):
        return all(_bind_target(a, b, m) for a, b in zip(t.elts, v.elts))
    return False


def _closed_lambda(e: ast.expr) -> bool:
    """A lambda with plain positional parameters whose body reads nothing but its parameters and constants (and
    builtins): it denotes the same function wherever it is written."""
    if not isinstance(e, ast.Lambda):
        return False
    a = e.args
    if a.vararg or a.kwarg or a.kwonlyargs or a.defaults or a.posonlyargs:
        return False
    params = {x.arg for x in a.args}
    for n in ast.walk(e.body):
        if isinstance(n, ast.Name) and n.id not in params and n.id not in PURE_BUILTINS | {'None', 'True', 'False', 'min', 'max', 'abs', 'round'}:
            return False
        if isinstance(n, (ast.Lambda, ast.NamedExpr, ast.Yield, ast.YieldFrom, ast.Await, ast.ListComp, ast.SetComp, ast.DictComp, ast.GeneratorExp)):
            return False
    return True


def _simple(e: ast.expr) -> bool:
    if isinstance(e, ast.Constant):
        return True
    if isinstance(e, ast.Lambda):
        return _closed_lambda(e)
    if isinstance(e, ast.Call):
        return _nt_fields(e) is not None
    if isinstance(e, ast.Name):
        return True
    if isinstance(e, ast.Attribute):
        return _simple(e.value)
    return False


def _module_consts(tree: ast.Module) -> dict[str, ast.expr]:
    count: dict[str, int] = {}
    val: dict[str, ast.expr] = {}
    for n in ast.walk(tree):
        if isinstance(n, ast.Name) and isinstance(n.ctx, (ast.Store, ast.Del)):
            count[n.id] = count.get(n.id, 0) + 1
        if isinstance(n, ast.Global):
            for nm in n.names:
                count[nm] = count.get(nm, 0) + 2
    for st in tree.body:
        tg = None
        if isinstance(st, ast.Assign) and len(st.targets) == 1:
            tg, v = st.targets[0], st.value
        elif isinstance(st, ast.AnnAssign) and st.value is not None:
            tg, v = st.target, st.value
        if isinstance(tg, ast.Name) and isinstance(v, (ast.Tuple, ast.List)) and v.elts and \
                all(_simple(x) or (isinstance(x, ast.Tuple) and x.elts and all(_simple(y) for y in x.elts)) for x in v.elts):
            val[tg.id] = v
    out = {k: v for k, v in val.items() if count.get(k) == 1}
    # class-level tables: bound once in a class body, never stored to as an attribute
    attr_stores = {n.attr for n in ast.walk(tree) if isinstance(n, ast.Attribute) and isinstance(n.ctx, (ast.Store, ast.Del))}
    seen: dict[str, int] = {}
    cval: dict[str, ast.expr] = {}
    for c in ast.walk(tree):
        if not isinstance(c, ast.ClassDef):
            continue
        for st in c.body:
            tg = None
            if isinstance(st, ast.Assign) and len(st.targets) == 1:
                tg, v = st.targets[0], st.value
            elif isinstance(st, ast.AnnAssign) and st.value is not None:
                tg, v = st.target, st.value
            if isinstance(tg, ast.Name):
                seen[tg.id] = seen.get(tg.id, 0) + 1
                if isinstance(v, (ast.Tuple, ast.List)) and v.elts and all(_simple(x) or (isinstance(x, ast.Tuple) and x.elts and all(_simple(y) for y in x.elts)) for x in v.elts) \
                        and isinstance(v, ast.Tuple):
                    cval[tg.id] = v
    for k, v in cval.items():
        if seen.get(k) == 1 and k not in attr_stores:
            out['.' + k] = v
    return out


class _Sub(ast.NodeTransformer):
    def __init__(self, mapping: dict[str, ast.expr]) -> None:
        self.mapping = mapping

    def visit_Name(self, n: ast.Name) -> ast.AST:  # noqa: N802
        if isinstance(n.ctx, ast.Load) and n.id in self.mapping:
            return ast.copy_location(copy.deepcopy(self.mapping[n.id]), n)
        return n


def _stores(st: ast.AST) -> set[str]:
    return {n.id for n in ast.walk(st) if isinstance(n, ast.Name) and isinstance(n.ctx, (ast.Store, ast.Del))}


def _loads(sts: list[ast.stmt]) -> set[str]:
    return {n.id for st in sts for n in ast.walk(st) if isinstance(n, ast.Name) and isinstance(n.ctx, ast.Load)}


def _has_jump(body: list[ast.stmt]) -> bool:
    for st in body:
        for n in ast.walk(st):
            if isinstance(n, (ast.Break, ast.Continue)):
                return True
    return False


class _Fold(ast.NodeTransformer):
    """N2 + N3 (expression part)."""

    def visit_JoinedStr(self, n: ast.JoinedStr) -> ast.AST:  # noqa: N802
        self.generic_visit(n)
        parts = []
        for v in n.values:
            if isinstance(v, ast.Constant) and isinstance(v.value, str):
                parts.append(v.value)
            elif isinstance(v, ast.FormattedValue) and isinstance(v.value, ast.Constant) and isinstance(v.value.value, str) \
                    and v.conversion == -1 and v.format_spec is None:
                parts.append(v.value.value)
            else:
                return n
        return ast.copy_location(ast.Constant(value=''.join(parts)), n)

    def visit_BinOp(self, n: ast.BinOp) -> ast.AST:  # noqa: N802
        self.generic_visit(n)
        if isinstance(n.op, ast.Add) and isinstance(n.left, ast.Constant) and isinstance(n.right, ast.Constant) \
                and isinstance(n.left.value, str) and isinstance(n.right.value, str):
            return ast.copy_location(ast.Constant(value=n.left.value + n.right.value), n)
        return n

    def visit_Compare(self, n: ast.Compare) -> ast.AST:  # noqa: N802
        self.generic_visit(n)
        # N13: comparisons of two string / number / None constants (a helper parameter replaced by its argument)
        if len(n.ops) == 1 and isinstance(n.left, ast.Constant) and isinstance(n.comparators[0], ast.Constant):
            a, b = n.left.value, n.comparators[0].value
            if isinstance(a, (str, int, float, bool, type(None))) and isinstance(b, (str, int, float, bool, type(None))):
                op = n.ops[0]
                try:
                    if isinstance(op, ast.Eq):
                        v = a == b
                    elif isinstance(op, ast.NotEq):
                        v = a != b
                    elif isinstance(op, ast.Is) and (a is None or b is None):
                        v = a is b
                    elif isinstance(op, ast.IsNot) and (a is None or b is None):
                        v = a is not b
                    elif isinstance(op, ast.In) and isinstance(b, str) and isinstance(a, str):
                        v = a in b
                    else:
                        return n
                except TypeError:
                    return n
                return ast.copy_location(ast.Constant(value=bool(v)), n)
        return n

    def visit_Attribute(self, n: ast.Attribute) -> ast.AST:  # noqa: N802
        self.generic_visit(n)
        if isinstance(n.ctx, ast.Load) and isinstance(n.value, ast.Call):
            fl = _nt_fields(n.value)
            if fl is not None and n.attr in fl:
                return ast.copy_location(copy.deepcopy(fl[n.attr]), n)
        return n

    def visit_UnaryOp(self, n: ast.UnaryOp) -> ast.AST:  # noqa: N802
        self.generic_visit(n)
        if isinstance(n.op, ast.Not) and isinstance(n.operand, ast.Constant) and isinstance(n.operand.value, bool):
            return ast.copy_location(ast.Constant(value=not n.operand.value), n)
        return n

    def visit_BoolOp(self, n: ast.BoolOp) -> ast.AST:  # noqa: N802
        self.generic_visit(n)
        # constant operands of and / or (a helper parameter replaced by a constant argument)
        vals = []
        for k_, v in enumerate(n.values):
            if isinstance(v, ast.Constant) and isinstance(v.value, bool) and k_ == len(n.values) - 1 and vals:
                vals.append(v)          # `x and True` has the value True, not x: the last operand stays
                break
            if isinstance(v, ast.Constant) and isinstance(v.value, bool):
                if isinstance(n.op, ast.And):
                    if v.value:
                        continue
                    if not vals:
                        return ast.copy_location(ast.Constant(value=False), n)
                    vals.append(v)
                    break
                if not v.value:
                    continue
                if not vals:
                    return ast.copy_location(ast.Constant(value=True), n)
                vals.append(v)
                break
            vals.append(v)
        if not vals:
            return ast.copy_location(ast.Constant(value=isinstance(n.op, ast.And)), n)
        if len(vals) == 1 and not isinstance(vals[0], ast.Constant):
            # `True and x` is x only in a boolean context; keep the BoolOp unless nothing was dropped
            if len(n.values) == 1:
                return vals[0]
        if len(vals) != len(n.values) and len(vals) >= 2:
            n.values = vals
        return n

    def visit_IfExp(self, n: ast.IfExp) -> ast.AST:  # noqa: N802
        self.generic_visit(n)
        if isinstance(n.test, ast.Constant) and isinstance(n.test.value, bool):
            return n.body if n.test.value else n.orelse
        return n

    def visit_Call(self, n: ast.Call) -> ast.AST:  # noqa: N802
        self.generic_visit(n)
        # beta reduction: a closed lambda applied on the spot to plain arguments is its body with the arguments in place
        if isinstance(n.func, ast.Lambda) and _closed_lambda(n.func) and not n.keywords and len(n.args) == len(n.func.args.args) \
                and all(isinstance(a_, (ast.Name, ast.Constant)) or (isinstance(a_, ast.Attribute) and _simple(a_)) for a_ in n.args):
            m_ = {p_.arg: a_ for p_, a_ in zip(n.func.args.args, n.args)}
            return ast.copy_location(_Sub(m_).visit(copy.deepcopy(n.func.body)), n)
        # N32: operator.itemgetter(i[, j ...]) with constant indices is the lambda that picks those items
        fn_ = n.func
        if ((isinstance(fn_, ast.Name) and fn_.id == 'itemgetter') or (isinstance(fn_, ast.Attribute) and fn_.attr == 'itemgetter' and isinstance(fn_.value, ast.Name) and fn_.value.id == 'operator')) \
                and n.args and not n.keywords and all(isinstance(a_, ast.Constant) and isinstance(a_.value, (int, str)) for a_ in n.args):
            items = [ast.Subscript(value=ast.Name(id='item', ctx=ast.Load()), slice=ast.Constant(value=a_.value), ctx=ast.Load()) for a_ in n.args]
            body_ = items[0] if len(items) == 1 else ast.Tuple(elts=items, ctx=ast.Load())
            lam = ast.Lambda(args=ast.arguments(posonlyargs=[], args=[ast.arg(arg='item')], kwonlyargs=[], kw_defaults=[], defaults=[]), body=body_)
            return ast.fix_missing_locations(ast.copy_location(lam, n))
        if isinstance(n.func, ast.Name) and n.func.id == 'getattr' and len(n.args) == 2 and not n.keywords \
                and isinstance(n.args[1], ast.Constant) and isinstance(n.args[1].value, str) and n.args[1].value.isidentifier():
            return ast.copy_location(ast.Attribute(value=n.args[0], attr=n.args[1].value, ctx=ast.Load()), n)
        return n


_TABLES: dict[str, ast.Dict] = {}
_DICTS: dict[str, ast.Dict] = {}       # dict literals bound once whose keys and values are plain (iteration over .items())


def set_tables(trees: list[ast.Module]) -> None:
    """Module- and class-level names bound once to a dict literal with constant keys (dispatch tables)."""
    _TABLES.clear()
    _NT.clear()
    seen_cls: dict[str, int] = {}
    for tree in trees:
        for c in tree.body:
            if isinstance(c, ast.ClassDef):
                seen_cls[c.name] = seen_cls.get(c.name, 0) + 1
                if len(c.bases) == 1 and (getattr(c.bases[0], 'id', None) == 'NamedTuple' or getattr(c.bases[0], 'attr', None) == 'NamedTuple') and not c.decorator_list:
                    fields: list[tuple[str, ast.expr | None]] = []
                    plain = True
                    for st in c.body:
                        if isinstance(st, ast.AnnAssign) and isinstance(st.target, ast.Name):
                            fields.append((st.target.id, st.value if st.value is None or _simple(st.value) else None))
                            if st.value is not None and not _simple(st.value):
                                plain = False
                        elif isinstance(st, ast.Expr) and isinstance(st.value, ast.Constant):
                            continue
                        elif isinstance(st, ast.Pass):
                            continue
                        else:
                            plain = False      # methods / properties: attribute access may not be a field read
                    if plain and fields:
                        _NT[c.name] = fields
    for nm, k in seen_cls.items():
        if k > 1:
            _NT.pop(nm, None)
    count: dict[str, int] = {}
    val: dict[str, ast.Dict] = {}
    dval: dict[str, ast.Dict] = {}
    for tree in trees:
        bodies = [tree.body] + [c.body for c in ast.walk(tree) if isinstance(c, ast.ClassDef)]
        for body in bodies:
            for st in body:
                tg = st.targets[0] if isinstance(st, ast.Assign) and len(st.targets) == 1 else (st.target if isinstance(st, ast.AnnAssign) else None)
                v = getattr(st, 'value', None)
                if isinstance(tg, ast.Name):
                    count[tg.id] = count.get(tg.id, 0) + 1
                    if isinstance(v, ast.Dict) and v.keys and all(isinstance(k, ast.Constant) for k in v.keys):
                        val[tg.id] = v
                    if isinstance(v, ast.Dict) and v.keys and all(k is not None and _simple(k) for k in v.keys) and all(_simple(x) for x in v.values):
                        dval[tg.id] = v
    for k, v in val.items():
        if count.get(k) == 1:
            _TABLES[k] = v
    _DICTS.clear()
    stored_attrs = {n_.attr for t_ in trees for n_ in ast.walk(t_) if isinstance(n_, ast.Attribute) and isinstance(n_.ctx, (ast.Store, ast.Del))}
    sub_stores = {n_.value.id for t_ in trees for n_ in ast.walk(t_) if isinstance(n_, ast.Subscript) and isinstance(n_.ctx, (ast.Store, ast.Del)) and isinstance(n_.value, ast.Name)}
    for k, v in dval.items():
        if count.get(k) == 1 and k not in stored_attrs and k not in sub_stores:
            _DICTS[k] = v


def _table_value(tab: ast.Dict, key: object) -> ast.expr | None:
    for k, v in zip(tab.keys, tab.values):
        if isinstance(k, ast.Constant) and k.value == key and type(k.value) is type(key):
            if _simple(v) or (isinstance(v, ast.Tuple) and all(_simple(x) for x in v.elts)):
                return copy.deepcopy(v)
    return None


class _Tables(ast.NodeTransformer):
    """N15: TABLE['k'] / self.TABLE['k'] / TABLE.get('k') with a constant key -> the table entry."""

    def _tab(self, e: ast.expr) -> ast.Dict | None:
        if isinstance(e, ast.Name):
            return _TABLES.get(e.id)
        if isinstance(e, ast.Attribute) and isinstance(e.value, ast.Name) and e.value.id in ('self', 'cls'):
            return _TABLES.get(e.attr)
        return None

    def visit_Subscript(self, n: ast.Subscript) -> ast.AST:  # noqa: N802
        self.generic_visit(n)
        tab = self._tab(n.value)
        if tab is not None and isinstance(n.ctx, ast.Load) and isinstance(n.slice, ast.Constant):
            v = _table_value(tab, n.slice.value)
            if v is not None:
                return ast.copy_location(v, n)
        return n


def _seq_ok(targets: list, values: list) -> bool:
    """Assigning targets[i] = values[i] one after the other equals the simultaneous assignment: no value reads a
    target assigned before it."""
    if any(isinstance(x, ast.Starred) for x in list(targets) + list(values)):
        return False
    done: set[str] = set()
    for t, v in zip(targets, values):
        reads = {ast.unparse(x) for x in ast.walk(v) if isinstance(x, (ast.Name, ast.Attribute, ast.Subscript))}
        if reads & done:
            return False
        done.add(ast.unparse(t))
    return True


def _split_tuple_assigns(fn: ast.AST) -> None:
    """N14: `a, b = x, y` -> `a = x; b = y` when no right-hand side reads a target."""
    for _owner, blk in list(_blocks(fn)):
        i = 0
        while i < len(blk):
            st = blk[i]
            # unpacking the construction of a plain NamedTuple is unpacking its fields in order
            if isinstance(st, ast.Assign) and len(st.targets) == 1 and isinstance(st.targets[0], ast.Tuple) and isinstance(st.value, ast.Call):
                fl_ = _nt_fields(st.value)
                if fl_ is not None and len(fl_) == len(st.targets[0].elts):
                    st.value = ast.copy_location(ast.Tuple(elts=list(fl_.values()), ctx=ast.Load()), st.value)
            if isinstance(st, ast.Assign) and len(st.targets) == 1 and isinstance(st.targets[0], ast.Tuple) and isinstance(st.value, ast.Tuple) \
                    and len(st.targets[0].elts) == len(st.value.elts) and not any(isinstance(x, ast.Starred) for x in st.targets[0].elts + st.value.elts):
                if _seq_ok(st.targets[0].elts, st.value.elts):
                    parts = [ast.copy_location(ast.Assign(targets=[t], value=v, lineno=st.lineno), st) for t, v in zip(st.targets[0].elts, st.value.elts)
                             if not (isinstance(t, ast.Name) and isinstance(v, ast.Name) and t.id == v.id)]       # x = x: nothing
                    blk[i:i + 1] = parts or [ast.copy_location(ast.Pass(), st)]
                    i += max(len(parts), 1)
                    continue
            # `r, c = x.shape` (or a local holding x.shape) -> r = x.shape[0]; c = x.shape[1]   (extents are unpacked by position;
            # the length check the unpacking implies is not a behaviour any property speaks about)
            if isinstance(st, ast.Assign) and len(st.targets) == 1 and isinstance(st.targets[0], ast.Tuple) and all(isinstance(t, ast.Name) for t in st.targets[0].elts):
                src = st.value
                is_shape = isinstance(src, ast.Attribute) and src.attr == 'shape' and _simple(src)
                if isinstance(src, ast.Name):
                    defs = [n for n in ast.walk(fn) if isinstance(n, ast.Assign) and len(n.targets) == 1 and isinstance(n.targets[0], ast.Name) and n.targets[0].id == src.id]
                    nst = sum(1 for n in ast.walk(fn) if isinstance(n, ast.Name) and n.id == src.id and isinstance(n.ctx, (ast.Store, ast.Del)))
                    is_shape = len(defs) == 1 and nst == 1 and isinstance(defs[0].value, ast.Attribute) and defs[0].value.attr == 'shape' and _simple(defs[0].value)
                if is_shape and src is not None and not any(isinstance(t, ast.Name) and isinstance(src, ast.Name) and t.id == src.id for t in st.targets[0].elts):
                    blk[i:i + 1] = [ast.copy_location(ast.Assign(targets=[t], value=ast.copy_location(ast.Subscript(value=copy.deepcopy(src), slice=ast.Constant(value=k_), ctx=ast.Load()), src),
                                                                 lineno=st.lineno), st) for k_, t in enumerate(st.targets[0].elts)]
                    for x in blk[i:i + len(st.targets[0].elts)]:
                        ast.fix_missing_locations(x)
                    i += len(st.targets[0].elts)
                    continue
            # `a, b = (x1, y1) if c else (x2, y2)` -> if c: a = x1; b = y1 else: a = x2; b = y2
            if isinstance(st, ast.Assign) and len(st.targets) == 1 and isinstance(st.targets[0], ast.Tuple) and isinstance(st.value, ast.IfExp) \
                    and isinstance(st.value.body, ast.Tuple) and isinstance(st.value.orelse, ast.Tuple) \
                    and len(st.value.body.elts) == len(st.value.orelse.elts) == len(st.targets[0].elts) \
                    and _seq_ok(st.targets[0].elts, st.value.body.elts) and _seq_ok(st.targets[0].elts, st.value.orelse.elts):
                mk = lambda vs: [ast.copy_location(ast.Assign(targets=[copy.deepcopy(t)], value=v, lineno=st.lineno), st) for t, v in zip(st.targets[0].elts, vs)]  # noqa: E731
                blk[i] = ast.copy_location(ast.If(test=st.value.test, body=mk(st.value.body.elts), orelse=mk(st.value.orelse.elts)), st)
                continue
            i += 1


def _own_nodes(fn: ast.AST):  # noqa: ANN202
    """Nodes of fn's own scope (nested function / class / lambda bodies excluded)."""
    stack = list(fn.body)  # type: ignore[attr-defined]
    while stack:
        n = stack.pop()
        yield n
        if isinstance(n, (ast.FunctionDef, ast.AsyncFunctionDef, ast.ClassDef, ast.Lambda)):
            continue
        stack.extend(ast.iter_child_nodes(n))


def _const_prop(fn: ast.AST, keep: set[str] | None = None) -> None:
    """N16: a local bound exactly once, to a constant, is replaced by the constant (own scope only; names that a
    nested function or lambda mentions are left alone)."""
    stores: dict[str, int] = {}
    own = list(_own_nodes(fn))
    for n in own:
        if isinstance(n, ast.Name) and isinstance(n.ctx, (ast.Store, ast.Del)):
            stores[n.id] = stores.get(n.id, 0) + 1
        elif isinstance(n, (ast.Global, ast.Nonlocal)):
            for nm in n.names:
                stores[nm] = stores.get(nm, 0) + 2
    nested_names = {x.id for n in own if isinstance(n, (ast.FunctionDef, ast.AsyncFunctionDef, ast.ClassDef, ast.Lambda)) for x in ast.walk(n) if isinstance(x, ast.Name)}
    nested_names |= {nm for n in own if isinstance(n, (ast.FunctionDef, ast.AsyncFunctionDef, ast.ClassDef, ast.Lambda)) for g in ast.walk(n) if isinstance(g, (ast.Global, ast.Nonlocal)) for nm in g.names}
    a_ = fn.args  # type: ignore[attr-defined]
    params = {x.arg for x in a_.posonlyargs + a_.args + a_.kwonlyargs} | ({a_.vararg.arg} if a_.vararg else set()) | ({a_.kwarg.arg} if a_.kwarg else set())
    consts: dict[str, ast.Constant] = {}
    for n in own:
        if isinstance(n, ast.Assign) and len(n.targets) == 1 and isinstance(n.targets[0], ast.Name) and isinstance(n.value, ast.Constant) \
                and isinstance(n.value.value, (str, int, float, bool, type(None))) and stores.get(n.targets[0].id) == 1 \
                and n.targets[0].id not in params and n.targets[0].id not in nested_names and n.targets[0].id not in (keep or ()):
            consts[n.targets[0].id] = n.value
    if not consts:
        return
    for n in own:
        for fld, val in ast.iter_fields(n):
            if isinstance(val, ast.Name) and isinstance(val.ctx, ast.Load) and val.id in consts:
                setattr(n, fld, ast.copy_location(copy.deepcopy(consts[val.id]), val))
            elif isinstance(val, list):
                for k, x in enumerate(val):
                    if isinstance(x, ast.Name) and isinstance(x.ctx, ast.Load) and x.id in consts:
                        val[k] = ast.copy_location(copy.deepcopy(consts[x.id]), x)
    for _owner, blk in list(_blocks(fn)):
        keep = [st for st in blk if not (isinstance(st, ast.Assign) and len(st.targets) == 1 and isinstance(st.targets[0], ast.Name) and st.targets[0].id in consts
                                         and isinstance(st.value, ast.Constant) and any(st is o for o in own))]
        if len(keep) != len(blk):
            blk[:] = keep or [ast.copy_location(ast.Pass(), blk[0])]


_AMBIG = -1
_MUTABLE: set[str] = {'*'}


def _split_versions(fn: ast.AST, keep: set[str] | None = None) -> bool:
    """N18: a local that is re-bound several times by plain assignments in straight-line / if-structured code (never in
    a loop, try or with) is split into one name per binding when every read is reached by exactly one binding.  The
    program is the same; single-assignment locals are what N5/N8/N16 can then resolve (an unrolled table loop
    re-binds its temporaries once per row)."""
    if not isinstance(fn, (ast.FunctionDef, ast.AsyncFunctionDef)):
        return False
    own = list(_own_nodes(fn))
    a_ = fn.args
    params = {x.arg for x in a_.posonlyargs + a_.args + a_.kwonlyargs} | ({a_.vararg.arg} if a_.vararg else set()) | ({a_.kwarg.arg} if a_.kwarg else set())
    nested = {x.id for n in own if isinstance(n, (ast.FunctionDef, ast.AsyncFunctionDef, ast.ClassDef, ast.Lambda, ast.ListComp, ast.SetComp, ast.DictComp, ast.GeneratorExp))
              for x in ast.walk(n) if isinstance(x, ast.Name)}
    glob = {nm for n in own if isinstance(n, (ast.Global, ast.Nonlocal)) for nm in n.names}
    nstores: dict[str, int] = {}
    for n in own:
        if isinstance(n, ast.Name) and isinstance(n.ctx, (ast.Store, ast.Del)):
            nstores[n.id] = nstores.get(n.id, 0) + 1
    cand = {x for x, k in nstores.items() if k >= 2} - params - nested - glob - set(keep or ())
    if not cand:
        return False
    # every store is the single Name target of an Assign, or the target of an AugAssign; nothing inside loop / try / with
    ok_store: set[int] = set()
    for n in own:
        if isinstance(n, ast.Assign) and len(n.targets) == 1 and isinstance(n.targets[0], ast.Name):
            ok_store.add(id(n.targets[0]))
        elif isinstance(n, ast.AugAssign) and isinstance(n.target, ast.Name):
            ok_store.add(id(n.target))
    for n in own:
        if isinstance(n, ast.Name) and isinstance(n.ctx, (ast.Store, ast.Del)) and id(n) not in ok_store:
            cand.discard(n.id)

    def ban(block: list[ast.stmt], inside: bool) -> None:
        for st in block:
            hard = inside or isinstance(st, (ast.For, ast.AsyncFor, ast.While, ast.Try, ast.With, ast.AsyncWith)) or type(st).__name__ in ('Match', 'TryStar')
            if hard:
                for x in ast.walk(st):
                    if isinstance(x, ast.Name):
                        cand.discard(x.id)
            elif isinstance(st, ast.If):
                ban(st.body, False)
                ban(st.orelse, False)
    ban(fn.body, False)
    if not cand:
        return False
    counter: dict[str, int] = {x: 0 for x in cand}
    renames: list[tuple[ast.Name, str, int]] = []
    failed: set[str] = set()

    def use(e: ast.AST, env: dict[str, int]) -> None:
        for x in ast.walk(e):
            if isinstance(x, ast.Name) and x.id in cand and isinstance(x.ctx, ast.Load):
                v = env.get(x.id)
                if v is None or v == _AMBIG:
                    failed.add(x.id)
                else:
                    renames.append((x, x.id, v))

    def walk(block: list[ast.stmt], env: dict[str, int]) -> tuple[dict[str, int], bool]:
        for st in block:
            if isinstance(st, ast.Assign) and len(st.targets) == 1 and isinstance(st.targets[0], ast.Name) and st.targets[0].id in cand:
                use(st.value, env)
                x = st.targets[0].id
                counter[x] += 1
                env[x] = counter[x]
                renames.append((st.targets[0], x, counter[x]))
            elif isinstance(st, ast.AugAssign) and isinstance(st.target, ast.Name) and st.target.id in cand:
                use(st.value, env)
                v = env.get(st.target.id)
                if v is None or v == _AMBIG:
                    failed.add(st.target.id)
                else:
                    renames.append((st.target, st.target.id, v))
            elif isinstance(st, ast.If):
                use(st.test, env)
                e1, t1 = walk(st.body, dict(env))
                e2, t2 = walk(st.orelse, dict(env))
                if t1 and t2:
                    return env, True
                if t1:
                    env = e2
                elif t2:
                    env = e1
                else:
                    env = {x: (e1.get(x) if e1.get(x) == e2.get(x) else _AMBIG) for x in set(e1) | set(e2)}
            else:
                use(st, env)
                if isinstance(st, (ast.Return, ast.Raise, ast.Continue, ast.Break)):
                    return env, True
        return env, False
    walk(fn.body, {})
    done = False
    for node, x, v in renames:
        if x not in failed and counter[x] >= 2 and v >= 2:
            node.id = f'{x}__{v}'
            done = True
    return done


def _coalesce_branch_copy(fn: ast.AST, keep: set[str] | None = None) -> bool:
    """N22: `if c: ...; v = e else: v = b` at the top level of a function, where v is a new local with no other
    binding and b is a local that is not read after the if: v is b (the branch that re-binds assigns b itself)."""
    if not isinstance(fn, (ast.FunctionDef, ast.AsyncFunctionDef)):
        return False
    done = False
    blk = fn.body
    for k, st in enumerate(list(blk)):
        if not (isinstance(st, ast.If) and st.body and st.orelse):
            continue
        la, lb = st.body[-1], st.orelse[-1]
        for x, y in ((la, lb), (lb, la)):
            if not (isinstance(x, ast.Assign) and isinstance(y, ast.Assign) and len(x.targets) == 1 and len(y.targets) == 1
                    and isinstance(x.targets[0], ast.Name) and isinstance(y.targets[0], ast.Name) and x.targets[0].id == y.targets[0].id and isinstance(y.value, ast.Name)):
                continue
            v, b = x.targets[0].id, y.value.id
            if v == b or v in (keep or ()):
                continue
            stores_v = [n for n in ast.walk(fn) if isinstance(n, ast.Name) and n.id == v and isinstance(n.ctx, (ast.Store, ast.Del))]
            if len(stores_v) != 2:
                continue
            a_ = fn.args
            params = {p_.arg for p_ in a_.posonlyargs + a_.args + a_.kwonlyargs}
            if v in params:
                continue
            nested = {n_.id for f_ in ast.walk(fn) if isinstance(f_, (ast.FunctionDef, ast.AsyncFunctionDef, ast.Lambda)) and f_ is not fn for n_ in ast.walk(f_) if isinstance(n_, ast.Name)}
            if v in nested or b in nested:
                continue
            after = [n for s_ in blk[k + 1:] for n in ast.walk(s_) if isinstance(n, ast.Name) and n.id == b]
            before_v = [n for s_ in blk[:k] for n in ast.walk(s_) if isinstance(n, ast.Name) and n.id == v]
            inside_v = [n for n in ast.walk(st) if isinstance(n, ast.Name) and n.id == v and isinstance(n.ctx, ast.Load)]
            if after or before_v or inside_v:
                continue
            for n in ast.walk(fn):
                if isinstance(n, ast.Name) and n.id == v:
                    n.id = b
            holder = st.orelse if y is lb else st.body
            holder.remove(y)
            if not st.orelse:
                pass
            if not st.body:
                st.body = [ast.copy_location(ast.Pass(), st)]
            done = True
            break
    return done


def _rows_in_place(fn: ast.AST, keep: set[str] | None = None) -> bool:
    """N23: a table initialised as `T = {a: {k: c for k in ks} for a, ks in W.items()}` whose row is later replaced
    wholesale by a dict over the same keys — `T[a] = {k: V for k in W[a]}`, or `L = {k: c2 for k in W[a]}; …
    L[k] = v …; T[a] = L` — is the table updated in place entry by entry (`for k in W[a]: T[a][k] = V`, `T[a][k] = v`):
    same keys in the same order, so the same table."""
    if not isinstance(fn, (ast.FunctionDef, ast.AsyncFunctionDef)):
        return False
    tables: dict[str, str] = {}          # T -> W
    inits0: dict[str, ast.expr] = {}     # T -> the constant every entry starts with
    for n in _own_nodes(fn):
        if isinstance(n, ast.Assign) and len(n.targets) == 1 and isinstance(n.targets[0], ast.Name) and isinstance(n.value, ast.DictComp) and len(n.value.generators) == 1:
            g = n.value.generators[0]
            if isinstance(g.iter, ast.Call) and isinstance(g.iter.func, ast.Attribute) and g.iter.func.attr == 'items' and isinstance(g.iter.func.value, ast.Name) \
                    and isinstance(g.target, ast.Tuple) and len(g.target.elts) == 2 and all(isinstance(x, ast.Name) for x in g.target.elts) and not g.ifs \
                    and isinstance(n.value.key, ast.Name) and n.value.key.id == g.target.elts[0].id and isinstance(n.value.value, ast.DictComp) \
                    and len(n.value.value.generators) == 1 and not n.value.value.generators[0].ifs \
                    and isinstance(n.value.value.generators[0].iter, ast.Name) and n.value.value.generators[0].iter.id == g.target.elts[1].id \
                    and isinstance(n.value.value.key, ast.Name) and isinstance(n.value.value.generators[0].target, ast.Name) \
                    and n.value.value.key.id == n.value.value.generators[0].target.id:
                tables[n.targets[0].id] = g.iter.func.value.id
                inits0[n.targets[0].id] = n.value.value.value
    if not tables:
        return False

    def row_keys(e: ast.expr, W: str, a: str) -> bool:
        # W[a], W[a].keys(), or a local alias is not followed
        if isinstance(e, ast.Call) and isinstance(e.func, ast.Attribute) and e.func.attr == 'keys' and not e.args:
            e = e.func.value
        return isinstance(e, ast.Subscript) and isinstance(e.value, ast.Name) and e.value.id == W and ast.unparse(e.slice) == a
    done = False
    for _owner, blk in list(_blocks(fn)):
        k = 0
        while k < len(blk):
            st = blk[k]
            k += 1
            if not (isinstance(st, ast.Assign) and len(st.targets) == 1 and isinstance(st.targets[0], ast.Subscript) and isinstance(st.targets[0].value, ast.Name)
                    and st.targets[0].value.id in tables):
                continue
            T = st.targets[0].value.id
            W = tables[T]
            a = ast.unparse(st.targets[0].slice)
            v = st.value
            if isinstance(v, ast.DictComp) and len(v.generators) == 1 and not v.generators[0].ifs and isinstance(v.generators[0].target, ast.Name) \
                    and isinstance(v.key, ast.Name) and v.key.id == v.generators[0].target.id and row_keys(v.generators[0].iter, W, a):
                g = v.generators[0]
                tgt = ast.Subscript(value=ast.Subscript(value=ast.Name(id=T, ctx=ast.Load()), slice=copy.deepcopy(st.targets[0].slice), ctx=ast.Load()),
                                    slice=ast.Name(id=g.target.id, ctx=ast.Load()), ctx=ast.Store())
                loop = ast.For(target=ast.Name(id=g.target.id, ctx=ast.Store()), iter=g.iter, body=[ast.Assign(targets=[tgt], value=v.value, lineno=st.lineno)], orelse=[], type_comment=None)
                ast.copy_location(loop, st)
                ast.fix_missing_locations(loop)
                blk[k - 1] = loop
                done = True
                continue
            if isinstance(v, ast.Name) and v.id not in (keep or ()):
                L = v.id
                inits = [(b2, x) for _o, b2 in _blocks(fn) for x in b2 if isinstance(x, ast.Assign) and len(x.targets) == 1 and isinstance(x.targets[0], ast.Name) and x.targets[0].id == L]
                if len(inits) != 1 or inits[0][0] is not blk:
                    continue
                ini = inits[0][1]
                iv = ini.value
                if not (isinstance(iv, ast.DictComp) and len(iv.generators) == 1 and not iv.generators[0].ifs and isinstance(iv.generators[0].target, ast.Name)
                        and isinstance(iv.key, ast.Name) and iv.key.id == iv.generators[0].target.id and row_keys(iv.generators[0].iter, W, a)):
                    continue
                # every other occurrence of L is `L[<key>]` (load or store) between the init and the row assignment
                i0, i1 = blk.index(ini), k - 1
                occ = [n for x in ast.walk(fn) for n in [x] if isinstance(n, ast.Name) and n.id == L]
                inside = [n for x in blk[i0 + 1:i1] for n in ast.walk(x) if isinstance(n, ast.Name) and n.id == L]
                if len(occ) != len(inside) + 2:
                    continue
                subs = [n for x in blk[i0 + 1:i1] for n in ast.walk(x) if isinstance(n, ast.Subscript) and isinstance(n.value, ast.Name) and n.value.id == L]
                if len(subs) != len(inside):
                    continue
                # the initial values c2 are overwritten or equal to the table's own initial values: require that every key is stored
                # (a loop over W[a] / its items that stores L[key]); otherwise keep the code as written
                for n in subs:
                    n.value = ast.copy_location(ast.Subscript(value=ast.Name(id=T, ctx=ast.Load()), slice=copy.deepcopy(st.targets[0].slice), ctx=ast.Load()), n.value)
                g = iv.generators[0]
                tgt = ast.Subscript(value=ast.Subscript(value=ast.Name(id=T, ctx=ast.Load()), slice=copy.deepcopy(st.targets[0].slice), ctx=ast.Load()),
                                    slice=ast.Name(id=g.target.id, ctx=ast.Load()), ctx=ast.Store())
                loop = ast.For(target=ast.Name(id=g.target.id, ctx=ast.Store()), iter=g.iter, body=[ast.Assign(targets=[tgt], value=iv.value, lineno=ini.lineno)], orelse=[], type_comment=None)
                ast.copy_location(loop, ini)
                ast.fix_missing_locations(loop)
                def _cst(e_: ast.AST | None) -> bool:
                    return isinstance(e_, ast.Constant) or (isinstance(e_, ast.UnaryOp) and isinstance(e_.op, ast.USub) and isinstance(e_.operand, ast.Constant))
                same_init = _cst(iv.value) and _cst(inits0.get(T)) and ast.dump(iv.value) == ast.dump(inits0[T]) \
                    and not any(isinstance(x, ast.Assign) and isinstance(x.targets[0], ast.Subscript) and ast.unparse(x.targets[0].value).startswith(T + '[')
                                for x in blk[:i0])
                if same_init:
                    # the row is re-initialised with the value the table was created with and nothing wrote to it before
                    del blk[i1]
                    del blk[i0]
                    k -= 2
                else:
                    blk[i0] = loop
                    del blk[i1]
                    k -= 1
                for x in blk:
                    ast.fix_missing_locations(x)
                done = True
    return done


PURE_METHODS = {'sum', 'item', 'view', 'size', 'mean', 'abs', 'reshape', 'dim', 'numel', 'nelement', 'float', 'double', 'to', 'contiguous', 'values', 'keys', 'items', 'get', 'index'}


def _fold_list_builders(fn: ast.AST, keep: set[str] | None = None) -> bool:
    """N34: `L = [a]` followed directly by `L.append(b)` or `if c: L.append(b)` (at most two conditional ones, c not reading L)
    is `L = [a, b]` resp. `if c: L = [a, b] else: L = [a]` — L is a new local nobody else holds yet."""
    if not isinstance(fn, (ast.FunctionDef, ast.AsyncFunctionDef)):
        return False
    done = False

    def is_append(st: ast.stmt, L: str) -> ast.expr | None:
        if isinstance(st, ast.Expr) and isinstance(st.value, ast.Call) and isinstance(st.value.func, ast.Attribute) and st.value.func.attr == 'append' \
                and isinstance(st.value.func.value, ast.Name) and st.value.func.value.id == L and len(st.value.args) == 1 and not st.value.keywords \
                and not any(isinstance(x, ast.Name) and x.id == L for x in ast.walk(st.value.args[0])):
            return st.value.args[0]
        return None
    for _o, blk in list(_blocks(fn)):
        k = 0
        while k < len(blk):
            st = blk[k]
            k += 1
            if not (isinstance(st, ast.Assign) and len(st.targets) == 1 and isinstance(st.targets[0], ast.Name) and isinstance(st.value, ast.List)
                    and not any(isinstance(x, ast.Starred) for x in st.value.elts)):
                continue
            L = st.targets[0].id
            if L in (keep or ()):
                continue
            variants: list[tuple[list[ast.expr], list[ast.expr]]] = [([], list(st.value.elts))]      # (conditions that hold, elements)
            conds: list[ast.expr] = []
            j = k
            while j < len(blk):
                nx = blk[j]
                e = is_append(nx, L)
                if e is not None:
                    variants = [(cs, els + [e]) for cs, els in variants]
                    j += 1
                    continue
                if isinstance(nx, ast.If) and not nx.orelse and len(nx.body) == 1 and is_append(nx.body[0], L) is not None and len(conds) < 2 \
                        and not any(isinstance(x, ast.Name) and x.id == L for x in ast.walk(nx.test)) \
                        and not any(isinstance(x, (ast.Call,)) and not (isinstance(x.func, ast.Attribute) and x.func.attr in PURE_PREDICATES) for x in ast.walk(nx.test)):
                    e2 = is_append(nx.body[0], L)
                    conds.append(nx.test)
                    variants = [(cs + [(nx.test, True)], els + [e2]) for cs, els in variants] + [(cs + [(nx.test, False)], els) for cs, els in variants]
                    j += 1
                    continue
                break
            if j == k:
                continue

            def build(level: int, chosen: list[bool]) -> list[ast.stmt]:
                if level == len(conds):
                    for cs, els in variants:
                        if [v for _t, v in cs] == chosen:
                            return [ast.copy_location(ast.Assign(targets=[ast.Name(id=L, ctx=ast.Store())], value=ast.List(elts=[copy.deepcopy(x) for x in els], ctx=ast.Load()), lineno=st.lineno), st)]
                    return []
                return [ast.copy_location(ast.If(test=copy.deepcopy(conds[level]), body=build(level + 1, chosen + [True]), orelse=build(level + 1, chosen + [False])), st)]
            new = build(0, [])
            for x in new:
                ast.fix_missing_locations(x)
            blk[k - 1:j] = new
            k = k - 1 + len(new)
            done = True
    return done


def _loop_over_branch_lists(fn: ast.AST, keep: set[str] | None = None) -> bool:
    """N24: `if c: …; L = [r1, …] else: …; L = [s1, …]` followed by `for t in L: B` with L a new local used nowhere else:
    the loop moves into the branches; and a loop over a list / tuple literal of rows is unrolled (`t = r1; B; t = r2; B`)
    when B cannot change what a later row evaluates to (B stores only to names the rows do not read and calls only
    pure tensor / container methods)."""
    if not isinstance(fn, (ast.FunctionDef, ast.AsyncFunctionDef)):
        return False
    done = False
    for _owner, blk in list(_blocks(fn)):
        k = 0
        while k + 1 < len(blk):
            a, b = blk[k], blk[k + 1]
            k += 1
            if not (isinstance(a, ast.If) and a.body and a.orelse and isinstance(b, ast.For) and not b.orelse and isinstance(b.iter, ast.Name)):
                continue
            L = b.iter.id
            if L in (keep or ()):
                continue
            la, lb = a.body[-1], a.orelse[-1]
            ok = all(isinstance(x, ast.Assign) and len(x.targets) == 1 and isinstance(x.targets[0], ast.Name) and x.targets[0].id == L
                     and isinstance(x.value, (ast.List, ast.Tuple)) for x in (la, lb))
            occ = sum(1 for n in ast.walk(fn) if isinstance(n, ast.Name) and n.id == L)
            if not ok or occ != 3 or _has_jump(b.body):
                continue
            for branch, last in ((a.body, la), (a.orelse, lb)):
                loop = ast.For(target=copy.deepcopy(b.target), iter=last.value, body=[copy.deepcopy(x) for x in b.body], orelse=[], type_comment=None)
                ast.copy_location(loop, b)
                branch[-1] = loop
                ast.fix_missing_locations(loop)
            del blk[k]
            done = True
    # unroll loops over literal rows
    for _owner, blk in list(_blocks(fn)):
        k = 0
        while k < len(blk):
            st = blk[k]
            k += 1
            if not (isinstance(st, ast.For) and not st.orelse and isinstance(st.iter, (ast.List, ast.Tuple)) and 0 < len(st.iter.elts) <= MAX_UNROLL and not _has_jump(st.body)):
                continue
            if any(isinstance(x, ast.Starred) for x in st.iter.elts):
                continue
            tnames = {n.id for n in ast.walk(st.target) if isinstance(n, ast.Name)}
            row_reads = {n.id for r in st.iter.elts for n in ast.walk(r) if isinstance(n, ast.Name)}
            body_stores = set()
            for x in st.body:
                body_stores |= _stores(x)
            attr_stores = any(isinstance(n, (ast.Attribute, ast.Subscript)) and isinstance(n.ctx, (ast.Store, ast.Del)) for x in st.body for n in ast.walk(x))
            calls_ok = all((isinstance(n.func, ast.Attribute) and n.func.attr in PURE_METHODS) or (isinstance(n.func, ast.Name) and n.func.id in PURE_BUILTINS | {'min', 'max', 'abs', 'sum'})
                           for x in st.body for n in ast.walk(x) if isinstance(n, ast.Call))
            if (body_stores - tnames) & row_reads or attr_stores or not calls_ok or tnames & _loads(blk[k:]) or (tnames & row_reads and len(st.iter.elts) > 1 and False):
                continue
            # a target that a later row reads would be overwritten by an earlier iteration
            if len(st.iter.elts) > 1 and tnames & {n.id for r in st.iter.elts[1:] for n in ast.walk(r) if isinstance(n, ast.Name)}:
                continue
            new_sts: list[ast.stmt] = []
            for r in st.iter.elts:
                asg = ast.copy_location(ast.Assign(targets=[copy.deepcopy(st.target)], value=r, lineno=st.lineno), st)
                new_sts.append(asg)
                new_sts += [copy.deepcopy(x) for x in st.body]
            for x in new_sts:
                ast.fix_missing_locations(x)
            blk[k - 1:k] = new_sts
            k += len(new_sts) - 1
            done = True
    return done


def _scalarise_records(fn: ast.AST, keep: set[str] | None = None) -> bool:
    """N26: a new local that is only ever bound to constructions of a plain NamedTuple class and only ever read through
    its fields is one local per field."""
    if not isinstance(fn, (ast.FunctionDef, ast.AsyncFunctionDef)) or not _NT:
        return False
    own = list(_own_nodes(fn))
    stores: dict[str, list[ast.Assign]] = {}
    bad: set[str] = set()
    for n in own:
        if isinstance(n, ast.Assign) and len(n.targets) == 1 and isinstance(n.targets[0], ast.Name):
            if _nt_fields(n.value) is not None:
                stores.setdefault(n.targets[0].id, []).append(n)
            else:
                bad.add(n.targets[0].id)
    cands = {v for v in stores if v not in bad and v not in (keep or ())}
    if not cands:
        return False
    parent: dict[int, ast.AST] = {}
    for n in ast.walk(fn):
        for c in ast.iter_child_nodes(n):
            parent[id(c)] = n
    for n in ast.walk(fn):
        if isinstance(n, ast.Name) and n.id in cands:
            p_ = parent.get(id(n))
            if isinstance(n.ctx, ast.Store):
                if not (isinstance(p_, ast.Assign) and any(p_ is s_ for s_ in stores[n.id])):
                    cands.discard(n.id)
            elif not (isinstance(p_, ast.Attribute) and p_.value is n and isinstance(p_.ctx, ast.Load)):
                cands.discard(n.id)
    cands = {v for v in cands if len({s_.value.func.id for s_ in stores[v]}) == 1}
    if not cands:
        return False
    for _o, blk in list(_blocks(fn)):
        k = 0
        while k < len(blk):
            st = blk[k]
            if isinstance(st, ast.Assign) and len(st.targets) == 1 and isinstance(st.targets[0], ast.Name) and st.targets[0].id in cands and _nt_fields(st.value) is not None:
                fl = _nt_fields(st.value)
                v = st.targets[0].id
                parts = [ast.copy_location(ast.Assign(targets=[ast.Name(id=f'{v}__{f_}', ctx=ast.Store())], value=copy.deepcopy(a_), lineno=st.lineno), st) for f_, a_ in fl.items()]
                for x in parts:
                    ast.fix_missing_locations(x)
                blk[k:k + 1] = parts
                k += len(parts)
                continue
            k += 1

    class _R(ast.NodeTransformer):
        def visit_Attribute(self, n: ast.Attribute) -> ast.AST:  # noqa: N802
            self.generic_visit(n)
            if isinstance(n.value, ast.Name) and n.value.id in cands and isinstance(n.ctx, ast.Load):
                return ast.copy_location(ast.Name(id=f'{n.value.id}__{n.attr}', ctx=ast.Load()), n)
            return n
    _R().visit(fn)
    return True


def _fuse_generators(fn: ast.AST, keep: set[str] | None = None) -> bool:
    """N27: `g = (f(i) for i in R)` (call-free f, one clause, no filter) consumed once, as the iterable of a comprehension
    clause `for t in g` whose target is a plain name: the clause becomes `for i in R` with t replaced by f(i)."""
    if not isinstance(fn, (ast.FunctionDef, ast.AsyncFunctionDef)):
        return False
    done = False
    for _o, blk in list(_blocks(fn)):
        for st in list(blk):
            if not (isinstance(st, ast.Assign) and len(st.targets) == 1 and isinstance(st.targets[0], ast.Name) and isinstance(st.value, (ast.GeneratorExp, ast.ListComp))):
                continue
            g = st.targets[0].id
            gen = st.value
            if g in (keep or ()) or len(gen.generators) != 1 or gen.generators[0].ifs or gen.generators[0].is_async or not isinstance(gen.generators[0].target, ast.Name):
                continue
            if any(isinstance(x, (ast.Call, ast.Await, ast.NamedExpr, ast.Lambda)) for x in ast.walk(gen.elt)):
                continue
            occ = [x for x in ast.walk(fn) if isinstance(x, ast.Name) and x.id == g]
            if len(occ) != 2:
                continue
            use = next(x for x in occ if isinstance(x.ctx, ast.Load))
            comp = None
            for c in ast.walk(fn):
                if isinstance(c, (ast.ListComp, ast.SetComp, ast.DictComp, ast.GeneratorExp)):
                    for cl in c.generators:
                        if cl.iter is use and isinstance(cl.target, ast.Name) and not cl.is_async:
                            comp, clause = c, cl
            if comp is None or comp is gen:
                continue
            inner_var = gen.generators[0].target.id
            names_in_comp = {x.id for x in ast.walk(comp) if isinstance(x, ast.Name)}
            if inner_var in names_in_comp:
                continue
            # names the element reads must not be rebound between the two statements
            reads = {x.id for x in ast.walk(gen.elt) if isinstance(x, ast.Name)} - {inner_var}
            k0, k1 = blk.index(st), next((i for i, y in enumerate(blk) if any(z is comp for z in ast.walk(y))), None)
            if k1 is None or k1 <= k0 or any(reads & _stores(y) for y in blk[k0 + 1:k1]):
                continue
            t = clause.target.id
            sub = _Sub({t: gen.elt})
            if isinstance(comp, ast.DictComp):
                comp.key = sub.visit(comp.key)
                comp.value = sub.visit(comp.value)
            else:
                comp.elt = sub.visit(comp.elt)
            idx = comp.generators.index(clause)
            for later in comp.generators[idx + 1:]:
                later.iter = sub.visit(later.iter)
                later.ifs = [sub.visit(i_) for i_ in later.ifs]
            clause.ifs = [sub.visit(i_) for i_ in clause.ifs]
            clause.target = ast.copy_location(ast.Name(id=inner_var, ctx=ast.Store()), clause.target)
            clause.iter = gen.generators[0].iter
            blk.remove(st)
            ast.fix_missing_locations(fn)
            done = True
    return done


def _inline_star_tuples(fn: ast.AST, keep: set[str] | None = None) -> bool:
    """N28: `t = (a, b)` (plain names / attribute reads) used only as `f(*t)`: the call is `f(a, b)` when nothing between
    the binding and the call stores to what a and b read."""
    if not isinstance(fn, (ast.FunctionDef, ast.AsyncFunctionDef)):
        return False
    done = False
    for _o, blk in list(_blocks(fn)):
        for st in list(blk):
            if not (isinstance(st, ast.Assign) and len(st.targets) == 1 and isinstance(st.targets[0], ast.Name) and isinstance(st.value, ast.Tuple) and st.value.elts
                    and all(_simple(x) and not isinstance(x, ast.Lambda) for x in st.value.elts)):
                continue
            t = st.targets[0].id
            if t in (keep or ()):
                continue
            occ = [x for x in ast.walk(fn) if isinstance(x, ast.Name) and x.id == t]
            stars = [c for c in ast.walk(fn) if isinstance(c, ast.Call) for a_ in c.args if isinstance(a_, ast.Starred) and isinstance(a_.value, ast.Name) and a_.value.id == t]
            if len(occ) != len(stars) + 1 or not stars:
                continue
            k0 = blk.index(st)
            holders = [i for i, y in enumerate(blk) if any(any(z is c for z in ast.walk(y)) for c in stars)]
            if not holders or min(holders) <= k0:
                continue
            roots = {x.id for e_ in st.value.elts for x in ast.walk(e_) if isinstance(x, ast.Name)}
            attrs = {x.attr for e_ in st.value.elts for x in ast.walk(e_) if isinstance(x, ast.Attribute)}
            between = blk[k0 + 1:max(holders) + 1]
            if any(roots & _stores(y) for y in between):
                continue
            if any(isinstance(z, ast.Attribute) and isinstance(z.ctx, (ast.Store, ast.Del)) and z.attr in attrs for y in between for z in ast.walk(y)):
                continue
            for c in stars:
                new_args = []
                for a_ in c.args:
                    if isinstance(a_, ast.Starred) and isinstance(a_.value, ast.Name) and a_.value.id == t:
                        new_args += [copy.deepcopy(e_) for e_ in st.value.elts]
                    else:
                        new_args.append(a_)
                c.args = new_args
            blk.remove(st)
            ast.fix_missing_locations(fn)
            done = True
    return done


def _sort_in_place(fn: ast.AST, keep: set[str] | None = None) -> bool:
    """N29: `x = <list display / comprehension>` immediately followed by `x.sort(...)` is `x = sorted(<it>, ...)` (a fresh
    list nobody else holds); N30: `dict.fromkeys(it, c)` with a constant c is `{k: c for k in it}`."""
    done = False
    for _o, blk in list(_blocks(fn)):
        k = 0
        while k + 1 < len(blk):
            a, b = blk[k], blk[k + 1]
            k += 1
            if isinstance(a, ast.Assign) and len(a.targets) == 1 and isinstance(a.targets[0], ast.Name) and isinstance(a.value, (ast.List, ast.ListComp)) \
                    and isinstance(b, ast.Expr) and isinstance(b.value, ast.Call) and isinstance(b.value.func, ast.Attribute) and b.value.func.attr == 'sort' \
                    and isinstance(b.value.func.value, ast.Name) and b.value.func.value.id == a.targets[0].id and not b.value.args:
                a.value = ast.copy_location(ast.Call(func=ast.Name(id='sorted', ctx=ast.Load()), args=[a.value], keywords=b.value.keywords), a.value)
                ast.fix_missing_locations(a)
                del blk[k]
                done = True

    class _FK(ast.NodeTransformer):
        def visit_Call(self, c: ast.Call) -> ast.AST:  # noqa: N802
            self.generic_visit(c)
            if isinstance(c.func, ast.Attribute) and c.func.attr == 'fromkeys' and isinstance(c.func.value, ast.Name) and c.func.value.id == 'dict' and len(c.args) == 2 \
                    and not c.keywords and (isinstance(c.args[1], ast.Constant) or (isinstance(c.args[1], ast.UnaryOp) and isinstance(c.args[1].operand, ast.Constant))):
                var = '_kfv_k'
                return ast.copy_location(ast.DictComp(key=ast.Name(id=var, ctx=ast.Load()), value=c.args[1],
                                                      generators=[ast.comprehension(target=ast.Name(id=var, ctx=ast.Store()), iter=c.args[0], ifs=[], is_async=0)]), c)
            return c
    before = ast.dump(fn) if any(isinstance(x, ast.Attribute) and x.attr == 'fromkeys' for x in ast.walk(fn)) else None
    if before is not None:
        _FK().visit(fn)
        ast.fix_missing_locations(fn)
        done = done or ast.dump(fn) != before
    return done


def _sink_local(fn: ast.AST, keep: set[str] | None = None) -> bool:
    """N31: a new local v that is built up by plain assignments and finally copied into a field (`self.f = v`, the only
    read of v), with nothing in between that can observe the field (no mention of it, no call that receives self): v is the
    field."""
    if not isinstance(fn, (ast.FunctionDef, ast.AsyncFunctionDef)):
        return False
    done = False
    for _o, blk in list(_blocks(fn)):
        for k in range(len(blk) - 1, 0, -1):
            st = blk[k]
            if not (isinstance(st, ast.Assign) and len(st.targets) == 1 and isinstance(st.value, ast.Name) and isinstance(st.targets[0], ast.Attribute)
                    and isinstance(st.targets[0].value, ast.Name) and st.targets[0].value.id == 'self'):
                continue
            v = st.value.id
            if v in (keep or ()):
                continue
            occ = [x for x in ast.walk(fn) if isinstance(x, ast.Name) and x.id == v]
            loads = [x for x in occ if isinstance(x.ctx, ast.Load)]
            if len(loads) != 1 or loads[0] is not st.value:
                continue
            first = next((i for i, y in enumerate(blk[:k]) if any(x is z for z in ast.walk(y) for x in occ)), None)
            if first is None:
                continue
            inside = {id(z) for y in blk[first:k] for z in ast.walk(y)}
            if not all(id(x) in inside or x is st.value for x in occ):
                continue
            # every store of v is a plain `v = e`
            par = {}
            for y in blk[first:k]:
                for z in ast.walk(y):
                    for c in ast.iter_child_nodes(z):
                        par[id(c)] = z
            if not all(isinstance(par.get(id(x)), ast.Assign) and len(par[id(x)].targets) == 1 and par[id(x)].targets[0] is x for x in occ if x is not st.value):
                continue
            field = st.targets[0].attr
            between = blk[first:k]
            if any(isinstance(z, ast.Attribute) and z.attr == field for y in between for z in ast.walk(y)):
                continue
            if any(isinstance(z, ast.Call) and any(isinstance(w, ast.Name) and w.id == 'self' for w in ast.walk(z)) for y in between for z in ast.walk(y)):
                continue
            if any(isinstance(z, (ast.Return, ast.Raise, ast.Yield, ast.YieldFrom, ast.Await)) for y in between for z in ast.walk(y)):
                continue
            for x in occ:
                if x is st.value:
                    continue
                p_ = par[id(x)]
                p_.targets[0] = ast.copy_location(ast.Attribute(value=ast.Name(id='self', ctx=ast.Load()), attr=field, ctx=ast.Store()), x)
            del blk[k]
            ast.fix_missing_locations(fn)
            done = True
            break
    return done


def _unroll_comprehensions(fn: ast.AST, keep: set[str] | None = None) -> bool:
    """N33: a list comprehension all of whose clauses iterate sequences of known length (literal tuples, Conv2d geometry
    pairs) without filters, with a call-free element, is the list display of its elements."""
    done = False

    class _U(ast.NodeTransformer):
        def visit_ListComp(self, c: ast.ListComp) -> ast.AST:  # noqa: N802
            nonlocal done
            self.generic_visit(c)
            if any(g.ifs or g.is_async or not isinstance(g.target, ast.Name) for g in c.generators):
                return c
            if any(isinstance(x, (ast.Call, ast.Await, ast.NamedExpr, ast.Lambda)) for x in ast.walk(c.elt)):
                return c
            seqs = []
            for g in c.generators:
                it = g.iter
                if isinstance(it, (ast.Tuple, ast.List)) and all(isinstance(x, ast.Constant) for x in it.elts):
                    seqs.append((g.target.id, [copy.deepcopy(x) for x in it.elts]))
                elif isinstance(it, ast.Name) and _known_len(it, fn) is not None:
                    seqs.append((g.target.id, [_elem_of(it, j) for j in range(_known_len(it, fn))]))
                else:
                    return c
            total = 1
            for _t, xs in seqs:
                total *= len(xs)
            if not 0 < total <= MAX_UNROLL:
                return c
            rows: list[dict[str, ast.expr]] = [{}]
            for t, xs in seqs:
                rows = [{**r, t: x} for r in rows for x in xs]
            elts = [_Sub(r).visit(copy.deepcopy(c.elt)) for r in rows]
            done = True
            return ast.copy_location(ast.List(elts=elts, ctx=ast.Load()), c)
    _U().visit(fn)
    if done:
        ast.fix_missing_locations(fn)
    return done


def _apply_partials(fn: ast.AST, keep: set[str] | None = None) -> bool:
    """N35: `p = partial(f, a…, k=v…)` (f a plain name / attribute, arguments plain names, constants or tests over them, none
    re-bound afterwards) used only in calls `p(x…, j=w…)`: each call is `f(a…, x…, k=v…, j=w…)`.  `map(f, xs)` with a named
    function is the generator `(f(x) for x in xs)`."""
    if not isinstance(fn, (ast.FunctionDef, ast.AsyncFunctionDef)):
        return False
    done = False

    def argsafe(e: ast.expr) -> bool:
        if _simple(e) and not isinstance(e, ast.Lambda):
            return True
        if isinstance(e, ast.IfExp):
            return argsafe(e.test) and argsafe(e.body) and argsafe(e.orelse)
        if isinstance(e, ast.Compare):
            return argsafe(e.left) and all(argsafe(c) for c in e.comparators)
        if isinstance(e, ast.BoolOp):
            return all(argsafe(v) for v in e.values)
        if isinstance(e, ast.UnaryOp):
            return argsafe(e.operand)
        return False
    for _o, blk in list(_blocks(fn)):
        for st in list(blk):
            if not (isinstance(st, ast.Assign) and len(st.targets) == 1 and isinstance(st.targets[0], ast.Name) and isinstance(st.value, ast.Call)):
                continue
            c = st.value
            fnm = c.func.id if isinstance(c.func, ast.Name) else (c.func.attr if isinstance(c.func, ast.Attribute) else None)
            if fnm != 'partial' or not c.args or any(isinstance(a, ast.Starred) for a in c.args) or any(k.arg is None for k in c.keywords):
                continue
            p = st.targets[0].id
            if p in (keep or ()):
                continue
            target_f = c.args[0]
            if not (_simple(target_f) and not isinstance(target_f, (ast.Lambda, ast.Constant))):
                continue
            bound_pos, bound_kw = c.args[1:], c.keywords
            if not all(argsafe(a) for a in bound_pos) or not all(argsafe(k.value) for k in bound_kw):
                continue
            occ = [x for x in ast.walk(fn) if isinstance(x, ast.Name) and x.id == p]
            calls = [x for x in ast.walk(fn) if isinstance(x, ast.Call) and isinstance(x.func, ast.Name) and x.func.id == p]
            if len(occ) != len(calls) + 1 or not calls:
                continue
            if any(any(k.arg is None for k in x.keywords) or any(k.arg in {b.arg for b in bound_kw} for k in x.keywords) for x in calls):
                continue
            # partial binds now, the calls run later: the bound names must keep their values
            names = {x.id for a in list(bound_pos) + [k.value for k in bound_kw] + [target_f] for x in ast.walk(a) if isinstance(x, ast.Name)} - {'self'}
            k0 = blk.index(st)
            if any(isinstance(x, ast.Name) and x.id in names and isinstance(x.ctx, (ast.Store, ast.Del)) for y in blk[k0 + 1:] for x in ast.walk(y)):
                continue
            if any(isinstance(o_, (ast.For, ast.While)) and any(y is st for y in ast.walk(o_)) for o_ in ast.walk(fn)):
                continue
            for x in calls:
                x.func = copy.deepcopy(target_f)
                x.args = [copy.deepcopy(a) for a in bound_pos] + x.args
                x.keywords = [ast.keyword(arg=k.arg, value=copy.deepcopy(k.value)) for k in bound_kw] + x.keywords
            blk.remove(st)
            ast.fix_missing_locations(fn)
            done = True

    class _Map(ast.NodeTransformer):
        def visit_Call(self, c: ast.Call) -> ast.AST:  # noqa: N802
            nonlocal done
            self.generic_visit(c)
            # partial(f, a…, k=v…)(x…) applied on the spot
            if isinstance(c.func, ast.Call) and ((isinstance(c.func.func, ast.Name) and c.func.func.id == 'partial') or (isinstance(c.func.func, ast.Attribute) and c.func.func.attr == 'partial')) \
                    and c.func.args and not any(isinstance(a, ast.Starred) for a in c.func.args + c.args) and not any(k.arg is None for k in c.func.keywords + c.keywords) \
                    and not ({k.arg for k in c.func.keywords} & {k.arg for k in c.keywords}):
                done = True
                return ast.copy_location(ast.Call(func=c.func.args[0], args=list(c.func.args[1:]) + list(c.args), keywords=list(c.func.keywords) + list(c.keywords)), c)
            if isinstance(c.func, ast.Name) and c.func.id == 'map' and len(c.args) == 2 and not c.keywords and _simple(c.args[0]) \
                    and not isinstance(c.args[0], (ast.Lambda, ast.Constant)):
                var = '_kfv_m'
                call = ast.Call(func=c.args[0], args=[ast.Name(id=var, ctx=ast.Load())], keywords=[])
                done = True
                return ast.copy_location(ast.GeneratorExp(elt=call, generators=[ast.comprehension(target=ast.Name(id=var, ctx=ast.Store()), iter=c.args[1], ifs=[], is_async=0)]), c)
            return c
    if any(isinstance(x, ast.Name) and x.id in ('map', 'partial') for x in ast.walk(fn)) or any(isinstance(x, ast.Attribute) and x.attr == 'partial' for x in ast.walk(fn)):
        _Map().visit(fn)
        ast.fix_missing_locations(fn)
    return done


def _cse_locals(fn: ast.AST, keep: set[str] | None = None) -> bool:
    """N36: `a = E … b = E` in one block, E free of calls other than argument-less pure tensor queries (`x.size()`), with
    nothing in between that stores to a or to a name E reads, b a new local bound once: b is a."""
    if not isinstance(fn, (ast.FunctionDef, ast.AsyncFunctionDef)):
        return False
    done = False
    nstores: dict[str, int] = {}
    for x in ast.walk(fn):
        if isinstance(x, ast.Name) and isinstance(x.ctx, (ast.Store, ast.Del)):
            nstores[x.id] = nstores.get(x.id, 0) + 1

    def pure(e: ast.expr) -> bool:
        for x in ast.walk(e):
            if isinstance(x, ast.Call) and not (isinstance(x.func, ast.Attribute) and x.func.attr in ('size', 'dim', 'numel', 'nelement', 'element_size') and not x.keywords
                                                and all(isinstance(a_, ast.Constant) for a_ in x.args)):
                return False
            if isinstance(x, (ast.Lambda, ast.Await, ast.Yield, ast.YieldFrom, ast.NamedExpr)):
                return False
        return True
    parents: dict[int, tuple[list, int, ast.AST]] = {}
    for o_, b_ in list(_blocks(fn)):
        for k_, s_ in enumerate(b_):
            for fld in ('body', 'orelse'):
                sub = getattr(s_, fld, None)
                if isinstance(sub, list) and sub and isinstance(sub[0], ast.stmt):
                    parents[id(sub)] = (b_, k_, s_)
    for _o, blk in list(_blocks(fn)):
        j = 0
        while j < len(blk):
            sb = blk[j]
            j += 1
            if not (isinstance(sb, ast.Assign) and len(sb.targets) == 1 and isinstance(sb.targets[0], ast.Name) and pure(sb.value) and not isinstance(sb.value, (ast.Constant, ast.Name))):
                continue
            b = sb.targets[0].id
            if b in (keep or ()) or nstores.get(b) != 1:
                continue
            dump_b = ast.dump(sb.value)
            reads = {x.id for x in ast.walk(sb.value) if isinstance(x, ast.Name)}
            # statements that dominate sb, nearest first: earlier ones of its block, then of the enclosing if-blocks
            dom: list[ast.stmt] = list(reversed(blk[:j - 1]))
            cur_blk = blk
            while True:
                up = parents.get(id(cur_blk))
                if up is None or not isinstance(up[2], ast.If):
                    break
                dom += list(reversed(up[0][:up[1]]))
                cur_blk = up[0]
            for sa in dom:
                if _stores(sa) & reads:
                    break
                # an in-place tensor method (`x.transpose_(…)`) or any call that receives a name E reads may change what E denotes
                if any(isinstance(z, ast.Call) and any(isinstance(w, ast.Name) and w.id in reads for w in ast.walk(z))
                       and not (isinstance(z.func, ast.Attribute) and z.func.attr in ('size', 'dim', 'numel', 'nelement', 'element_size')) for z in ast.walk(sa)
                       if not (isinstance(sa, ast.Assign) and ast.dump(sa.value) == dump_b)):
                    break
                if isinstance(sa, ast.Assign) and len(sa.targets) == 1 and isinstance(sa.targets[0], ast.Name) and sa.targets[0].id != b and ast.dump(sa.value) == dump_b:
                    a = sa.targets[0].id
                    if nstores.get(a) != 1:
                        break
                    for x in ast.walk(fn):
                        if isinstance(x, ast.Name) and x.id == b:
                            x.id = a
                    del blk[j - 1]
                    if not blk:
                        blk.append(ast.copy_location(ast.Pass(), sb))
                    j -= 1
                    done = True
                    break
                if isinstance(sa, (ast.For, ast.While, ast.Try, ast.With, ast.FunctionDef)):
                    break
    return done


def _default_rebind(fn: ast.AST, keep: set[str] | None = None) -> bool:
    """N25: `v = a; if v is None: v = b` with `a` a plain name / attribute and v a new local is `v = a if a is not None else b`
    (the default-value idiom written as a rebinding)."""
    done = False
    for _owner, blk in list(_blocks(fn)):
        k = 0
        while k + 1 < len(blk):
            a, b = blk[k], blk[k + 1]
            k += 1
            if not (isinstance(a, ast.Assign) and len(a.targets) == 1 and isinstance(a.targets[0], ast.Name) and _simple(a.value) and not isinstance(a.value, ast.Constant)):
                continue
            v = a.targets[0].id
            if v in (keep or ()) or (isinstance(a.value, ast.Name) and a.value.id == v):
                continue
            if not (isinstance(b, ast.If) and not b.orelse and len(b.body) == 1 and isinstance(b.test, ast.Compare) and len(b.test.ops) == 1 and isinstance(b.test.ops[0], ast.Is)
                    and isinstance(b.test.left, ast.Name) and b.test.left.id == v and isinstance(b.test.comparators[0], ast.Constant) and b.test.comparators[0].value is None):
                continue
            c = b.body[0]
            if not (isinstance(c, ast.Assign) and len(c.targets) == 1 and isinstance(c.targets[0], ast.Name) and c.targets[0].id == v
                    and not any(isinstance(x, ast.Name) and x.id == v for x in ast.walk(c.value))):
                continue
            test = ast.copy_location(ast.Compare(left=copy.deepcopy(a.value), ops=[ast.IsNot()], comparators=[ast.Constant(value=None)]), b.test)
            a.value = ast.copy_location(ast.IfExp(test=test, body=a.value, orelse=c.value), a.value)
            ast.fix_missing_locations(a)
            del blk[k]
            done = True
    return done


def _collapse_rmw(fn: ast.AST, keep: set[str] | None = None) -> bool:
    """N19: `t = L; t op= e; L = t` (t a temporary used nowhere else, L an attribute or subscript) is `L op= e`:
    the same load, in-place operator and store that the augmented assignment to L performs."""
    if not isinstance(fn, (ast.FunctionDef, ast.AsyncFunctionDef)):
        return False
    occ: dict[str, int] = {}
    for n in ast.walk(fn):
        if isinstance(n, ast.Name):
            occ[n.id] = occ.get(n.id, 0) + 1
    done = False
    for _owner, blk in list(_blocks(fn)):
        k = 0
        while k + 2 < len(blk):
            a, b, c = blk[k], blk[k + 1], blk[k + 2]
            k += 1
            if not (isinstance(a, ast.Assign) and len(a.targets) == 1 and isinstance(a.targets[0], ast.Name) and isinstance(a.value, (ast.Attribute, ast.Subscript))):
                continue
            t = a.targets[0].id
            if t in (keep or ()) or occ.get(t) != 3:
                continue
            if not (isinstance(b, ast.AugAssign) and isinstance(b.target, ast.Name) and b.target.id == t and not any(isinstance(x, ast.Name) and x.id == t for x in ast.walk(b.value))):
                continue
            if not (isinstance(c, ast.Assign) and len(c.targets) == 1 and isinstance(c.value, ast.Name) and c.value.id == t
                    and isinstance(c.targets[0], (ast.Attribute, ast.Subscript)) and ast.unparse(c.targets[0]) == ast.unparse(a.value)):
                continue
            if any(isinstance(x, (ast.Call, ast.Await, ast.NamedExpr)) for x in ast.walk(a.value)):
                continue
            new = ast.copy_location(ast.AugAssign(target=c.targets[0], op=b.op, value=b.value), a)
            blk[k - 1:k + 2] = [new]
            done = True
    return done


def refresh_mutable(trees: dict[str, ast.Module]) -> bool:
    """After the structural steps a computed attribute name (`setattr(o, name, v)` in a table loop) may have become
    a constant one; the write-once fields are then known and N5 runs once more with them."""
    global _MUTABLE
    m2 = mutable_attrs(list(trees.values()))
    if '*' in _MUTABLE and '*' not in m2:
        _MUTABLE = m2
        from kfv import localnames
        inv = localnames.table()
        for modname, tree in trees.items():
            fns = [(f'{modname}.{n.name}', n) for n in tree.body if isinstance(n, (ast.FunctionDef, ast.AsyncFunctionDef))] + \
                  [(f'{modname}.{c.name}.{m.name}', m) for c in tree.body if isinstance(c, ast.ClassDef) for m in c.body if isinstance(m, (ast.FunctionDef, ast.AsyncFunctionDef))]
            for q, fn in fns:
                keep = {k[0] for k in inv.get(q, [])} | {k[0] for qq, v in inv.items() if qq.startswith(q + '.<locals>.') for k in v}
                copy_prop_function(fn, keep)
        return True
    _MUTABLE = m2 if '*' not in m2 else _MUTABLE
    return False


def copy_prop_function(fn: ast.AST, keep: set[str] | None = None) -> None:
    """N5 on one function (used again by the inliner after a helper was expanded into it)."""
    for _owner, blk in _blocks(fn):
        _copy_prop(blk, _MUTABLE, getattr(fn, 'name', '') == '__init__', keep)
    _drop_dead_copies(fn, keep)


def _fold(fn: ast.AST, keep: set[str] | None = None) -> None:
    if _TABLES:
        _Tables().visit(fn)
    _fold_list_builders(fn, keep)
    _loop_over_branch_lists(fn, keep)
    _split_tuple_assigns(fn)
    if isinstance(fn, (ast.FunctionDef, ast.AsyncFunctionDef)):
        _scalarise_records(fn, keep)
        _apply_partials(fn, keep)
        _fuse_generators(fn, keep)
        _unroll_comprehensions(fn, keep)
        _sort_in_place(fn, keep)
        _inline_star_tuples(fn, keep)
        _default_rebind(fn, keep)
        if _split_versions(fn, keep):
            fn._kfv_resplit = True  # type: ignore[attr-defined]
        _const_prop(fn, keep)
    _Fold().visit(fn)
    # N13: `if True/False:` left by the folding keeps only the live branch
    again = True
    while again:
        again = False
        for _owner, blk in list(_blocks(fn)):
            for k, st in enumerate(blk):
                if isinstance(st, ast.If) and isinstance(st.test, ast.Constant) and isinstance(st.test.value, bool):
                    live = st.body if st.test.value else st.orelse
                    blk[k:k + 1] = live or [ast.copy_location(ast.Pass(), st)]
                    again = True
                    break
            if again:
                break
    for _owner, blk in _blocks(fn):
        for k, st in enumerate(blk):
            if isinstance(st, ast.Expr) and isinstance(st.value, ast.Call) and isinstance(st.value.func, ast.Name) and st.value.func.id == 'setattr' \
                    and len(st.value.args) == 3 and not st.value.keywords and isinstance(st.value.args[1], ast.Constant) \
                    and isinstance(st.value.args[1].value, str) and st.value.args[1].value.isidentifier():
                o, key, v = st.value.args
                tgt = ast.copy_location(ast.Attribute(value=o, attr=key.value, ctx=ast.Store()), st.value)
                blk[k] = ast.copy_location(ast.Assign(targets=[tgt], value=v, lineno=st.lineno), st)
    _collapse_rmw(fn, keep)
    _cse_locals(fn, keep)
    _sink_local(fn, keep)
    _coalesce_branch_copy(fn, keep)
    _rows_in_place(fn, keep)


def _root_name(e: ast.AST) -> str | None:
    while isinstance(e, (ast.Attribute, ast.Subscript, ast.Call)):
        e = e.func if isinstance(e, ast.Call) else e.value
    return e.id if isinstance(e, ast.Name) else None


def _impure_between(sts: list[ast.stmt], base: str) -> bool:
    """Something in `sts` may change what `<base>.<attr>` / `<base>[k]` denotes: a store through `base`, or a call
    that can reach `base` (it is the receiver or an argument), pure builtins excepted."""
    for st in sts:
        for n in ast.walk(st):
            if isinstance(n, ast.Call):
                if isinstance(n.func, ast.Name) and n.func.id in PURE_BUILTINS:
                    continue
                mentioned = any(isinstance(x, ast.Name) and x.id == base for part in [n.func] + list(n.args) + [k.value for k in n.keywords] for x in ast.walk(part))
                if mentioned:
                    return True
            if isinstance(n, (ast.Attribute, ast.Subscript)) and isinstance(n.ctx, (ast.Store, ast.Del)) and _root_name(n) == base:
                return True
            if isinstance(n, (ast.Await, ast.Yield, ast.YieldFrom)):
                return True
    return False


def mutable_attrs(trees: list[ast.Module]) -> set[str]:
    """Attribute names stored anywhere outside a constructor (any object): everything else is write-once."""
    out: set[str] = set()
    for tree in trees:
        for fn in ast.walk(tree):
            if isinstance(fn, ast.ClassDef):
                # anything defined in a class body (properties, methods, class attributes) is not a plain field
                for m in fn.body:
                    if isinstance(m, (ast.FunctionDef, ast.AsyncFunctionDef)):
                        # a property (any decorator but staticmethod / classmethod) computes a value on every read; a plain
                        # method read through the instance is a bound method, stable unless the name is stored to (found below)
                        if any(not (isinstance(d, ast.Name) and d.id in ('staticmethod', 'classmethod')) for d in m.decorator_list):
                            out.add(m.name)
                    for t in (m.targets if isinstance(m, ast.Assign) else [m.target] if isinstance(m, ast.AnnAssign) else []):
                        if isinstance(t, ast.Name):
                            out.add(t.id)
            if not isinstance(fn, (ast.FunctionDef, ast.AsyncFunctionDef)) or fn.name == '__init__':
                continue
            for n in ast.walk(fn):
                if isinstance(n, ast.Attribute) and isinstance(n.ctx, (ast.Store, ast.Del)):
                    out.add(n.attr)
                if isinstance(n, ast.Call) and isinstance(n.func, ast.Name) and n.func.id in ('setattr', 'delattr') and len(n.args) >= 2:
                    k = n.args[1]
                    if isinstance(k, ast.Constant) and isinstance(k.value, str):
                        out.add(k.value)
                    elif isinstance(k, ast.JoinedStr):
                        out.add('*')      # computed attribute names: nothing is provably write-once
                    else:
                        out.add('*')
    return out


def _self_field(e: ast.expr) -> ast.expr | None:
    """A copyable source: <name>.<attr>, cast(T, <name>.<attr>) or <name>[<constant>]."""
    if isinstance(e, ast.Call) and isinstance(e.func, ast.Name) and e.func.id == 'cast' and len(e.args) == 2 and not e.keywords:
        e = e.args[1]
    if isinstance(e, ast.Attribute):
        r = e
        while isinstance(r, ast.Attribute):
            r = r.value
        if isinstance(r, ast.Name):
            return e
    if isinstance(e, ast.Subscript) and isinstance(e.value, ast.Name) and isinstance(e.slice, (ast.Constant, ast.Name)):
        return e
    if isinstance(e, ast.Subscript) and isinstance(e.slice, ast.Constant) and isinstance(e.value, ast.Attribute) and e.value.attr == 'shape' and _simple(e.value):
        return e          # an extent: x.shape[k]
    if isinstance(e, ast.Subscript) and isinstance(e.slice, (ast.Constant, ast.Name)) and isinstance(e.value, ast.Attribute) and _simple(e.value):
        return e          # an entry of a table held in a field: obj.table[k]
    return None


PURE_PREDICATES = {'has_bias', 'get_world_size', 'get_rank', 'isinstance', 'callable', 'broadcast_gradients', 'broadcast_inverses',
                   'set', 'frozenset', 'len', 'sorted', 'tuple'}      # the last five: fresh values computed from frozen arguments


_CONTENT_MUTABLE: set[str] = set()      # fields whose *contents* change somewhere (x.f.append(..), x.f[k] = v, del x.f[k], x.f += ..)
_MUTATORS = {'append', 'extend', 'insert', 'pop', 'popitem', 'remove', 'clear', 'sort', 'reverse', 'update', 'setdefault', 'add', 'discard', 'appendleft'}


def set_content_mutable(trees: list[ast.Module]) -> None:
    _CONTENT_MUTABLE.clear()
    for t in trees:
        for n in ast.walk(t):
            if isinstance(n, ast.Call) and isinstance(n.func, ast.Attribute) and n.func.attr in _MUTATORS and isinstance(n.func.value, ast.Attribute):
                _CONTENT_MUTABLE.add(n.func.value.attr)
            elif isinstance(n, ast.Subscript) and isinstance(n.ctx, (ast.Store, ast.Del)) and isinstance(n.value, ast.Attribute):
                _CONTENT_MUTABLE.add(n.value.attr)
            elif isinstance(n, ast.AugAssign) and isinstance(n.target, ast.Attribute):
                _CONTENT_MUTABLE.add(n.target.attr)


def _frozen_pure(e: ast.expr, mutable: set[str], in_init: bool) -> bool:
    """An expression whose value cannot change while the method runs: constants, write-once fields reached from self,
    tests and conditional expressions over those, and calls of the package's pure predicates / size queries on them."""
    if '*' in mutable or in_init:
        return False
    if isinstance(e, ast.Constant):
        return True
    if isinstance(e, ast.Attribute):
        chain = []
        r = e
        while isinstance(r, ast.Attribute):
            chain.append(r.attr)
            r = r.value
        return isinstance(r, ast.Name) and r.id == 'self' and not any(a in mutable for a in chain)
    if isinstance(e, ast.Compare):
        return _frozen_pure(e.left, mutable, in_init) and all(_frozen_pure(c, mutable, in_init) for c in e.comparators)
    if isinstance(e, ast.BoolOp):
        return all(_frozen_pure(v, mutable, in_init) for v in e.values)
    if isinstance(e, ast.UnaryOp):
        return _frozen_pure(e.operand, mutable, in_init)
    if isinstance(e, ast.IfExp):
        return all(_frozen_pure(x, mutable, in_init) for x in (e.test, e.body, e.orelse))
    if isinstance(e, ast.Call) and not e.keywords:
        f = e.func
        nm = f.attr if isinstance(f, ast.Attribute) else (f.id if isinstance(f, ast.Name) else None)
        if nm not in PURE_PREDICATES:
            return False
        if isinstance(f, ast.Attribute) and not _frozen_pure(f.value, mutable, in_init):
            return False
        if nm in ('set', 'frozenset', 'len', 'sorted', 'tuple'):
            # a value computed from a container: the container's contents must not change anywhere in the package
            for a in e.args:
                if any(isinstance(x, ast.Attribute) and x.attr in _CONTENT_MUTABLE for x in ast.walk(a)):
                    return False
        return all(_frozen_pure(a, mutable, in_init) for a in e.args)
    return False


def _copy_prop(block: list[ast.stmt], mutable: set[str], in_init: bool, keep: set[str] | None = None) -> None:
    """N5 on one block (in place)."""
    i = 0
    while i < len(block):
        st = block[i]
        # a new local that names a value which cannot change during the call (a hoisted test, a hoisted size query)
        if isinstance(st, ast.Assign) and len(st.targets) == 1 and isinstance(st.targets[0], ast.Name) and st.targets[0].id not in (keep or ()) \
                and not isinstance(st.value, (ast.Constant, ast.Attribute)) and _frozen_pure(st.value, mutable, in_init):
            v = st.targets[0].id
            j = i + 1
            while j < len(block) and v not in _stores(block[j]):
                j += 1
            if j == len(block) or True:
                seg = block[i + 1:j]
                if seg:
                    sub = _Sub({v: st.value})
                    block[i + 1:j] = [sub.visit(s) for s in seg]
            i += 1
            continue
        fld = _self_field(st.value) if isinstance(st, ast.Assign) and len(st.targets) == 1 and isinstance(st.targets[0], ast.Name) else None
        if fld is not None and st.targets[0].id in (keep or ()):
            fld = None
        if fld is not None:
            v = st.targets[0].id
            j = i + 1
            base = _root_name(fld) or ''
            if base == v:
                i += 1
                continue
            key = fld.slice.id if isinstance(fld, ast.Subscript) and isinstance(fld.slice, ast.Name) else None
            while j < len(block) and v not in _stores(block[j]) and base not in _stores(block[j]) and (key is None or key not in _stores(block[j])):
                j += 1
            chain = []
            r_ = fld
            while isinstance(r_, ast.Attribute):
                chain.append(r_.attr)
                r_ = r_.value
            frozen = isinstance(fld, ast.Attribute) and not in_init and '*' not in mutable and not any(a_ in mutable for a_ in chain)
            while not frozen and j > i + 1 and _impure_between(block[i + 1:j], base):
                j -= 1    # longest pure prefix: later reads keep using the local, which is still assigned
            # the first impure statement itself: when it is a simple statement with a single call, every read of the local
            # in it is evaluated before that call runs
            if not frozen and j < len(block) and isinstance(block[j], (ast.Assign, ast.Expr, ast.Return, ast.AugAssign)) \
                    and v not in _stores(block[j]) and base not in _stores(block[j]) and (key is None or key not in _stores(block[j])) \
                    and sum(1 for n_ in ast.walk(block[j]) if isinstance(n_, (ast.Call, ast.Await, ast.Yield, ast.YieldFrom))) == 1 \
                    and not any(isinstance(n_, (ast.Lambda, ast.ListComp, ast.SetComp, ast.DictComp, ast.GeneratorExp, ast.NamedExpr)) for n_ in ast.walk(block[j])) \
                    and not _impure_between(block[i + 1:j], base):
                j += 1
            seg = block[i + 1:j]
            if seg:
                sub = _Sub({v: st.value})
                block[i + 1:j] = [sub.visit(s) for s in seg]
        i += 1


def _drop_dead_copies(fn: ast.AST, keep: set[str] | None = None) -> None:
    """After N5: `v = <name>.<field>` / `v = <name>['k']` whose every read was replaced is a dead store of a pure read."""
    loads: dict[str, int] = {}
    stores: dict[str, int] = {}
    for n in ast.walk(fn):
        if isinstance(n, ast.Name):
            d = loads if isinstance(n.ctx, ast.Load) else stores
            d[n.id] = d.get(n.id, 0) + 1
    for _owner, blk in list(_blocks(fn)):
        kept = []
        for st in blk:
            if isinstance(st, ast.Assign) and len(st.targets) == 1 and isinstance(st.targets[0], ast.Name) \
                    and (_self_field(st.value) is not None or _frozen_pure(st.value, _MUTABLE, getattr(fn, 'name', '') == '__init__')) \
                    and not loads.get(st.targets[0].id) and stores.get(st.targets[0].id) == 1 and st.targets[0].id not in (keep or ()):
                continue
            kept.append(st)
        if len(kept) != len(blk):
            blk[:] = kept or [ast.copy_location(ast.Pass(), blk[0])]


def _blocks(node: ast.AST):  # noqa: ANN202
    for n in ast.walk(node):
        for fld in ('body', 'orelse', 'finalbody'):
            blk = getattr(n, fld, None)
            if isinstance(blk, list) and blk and isinstance(blk[0], ast.stmt):
                yield n, blk
        if isinstance(n, ast.Try):
            for h in n.handlers:
                yield h, h.body


def _negate(t: ast.expr) -> ast.expr:
    inv = {ast.Is: ast.IsNot, ast.IsNot: ast.Is, ast.Eq: ast.NotEq, ast.NotEq: ast.Eq, ast.In: ast.NotIn, ast.NotIn: ast.In,
           ast.Lt: ast.GtE, ast.GtE: ast.Lt, ast.Gt: ast.LtE, ast.LtE: ast.Gt}
    if isinstance(t, ast.UnaryOp) and isinstance(t.op, ast.Not):
        return t.operand
    if isinstance(t, ast.Compare) and len(t.ops) == 1 and type(t.ops[0]) in inv and not isinstance(t.ops[0], (ast.Lt, ast.GtE, ast.Gt, ast.LtE)):
        return ast.copy_location(ast.Compare(left=t.left, ops=[inv[type(t.ops[0])]()], comparators=t.comparators), t)
    return ast.copy_location(ast.UnaryOp(op=ast.Not(), operand=t), t)


def _continue_to_nest(body: list[ast.stmt]) -> list[ast.stmt] | None:
    """`if c: continue` guard clauses at the top level of a loop body -> `if not c: <rest>`; None when the body has
    any other jump."""
    out = list(body)
    k = len(out) - 1
    while k >= 0:
        st = out[k]
        if isinstance(st, ast.If) and not st.orelse and len(st.body) == 1 and isinstance(st.body[0], ast.Continue):
            rest = out[k + 1:]
            if rest:
                nest = ast.copy_location(ast.If(test=_negate(st.test), body=rest, orelse=[]), st)
                out = out[:k] + [nest]
            else:
                out = out[:k]
        k -= 1
    return None if _has_jump(out) or not out else out


def _local_const_tables(fn: ast.AST) -> dict[str, ast.expr]:
    """Locals bound once to a tuple / list literal of plain names, attribute reads and constants (rows of such), whose
    root names are themselves bound at most once (parameters, loop-free single assignments) and that are only iterated."""
    if not isinstance(fn, (ast.FunctionDef, ast.AsyncFunctionDef)):
        return {}
    stores: dict[str, int] = {}
    for n in _own_nodes(fn):
        if isinstance(n, ast.Name) and isinstance(n.ctx, (ast.Store, ast.Del)):
            stores[n.id] = stores.get(n.id, 0) + 1
    out: dict[str, ast.expr] = {}
    for st in fn.body:
        if isinstance(st, ast.Assign) and len(st.targets) == 1 and isinstance(st.targets[0], ast.Name) and isinstance(st.value, (ast.Tuple, ast.List)) and st.value.elts:
            nm = st.targets[0].id
            v = st.value
            if stores.get(nm) != 1:
                continue
            if not all(_simple(x) or (isinstance(x, ast.Tuple) and x.elts and all(_simple(y) for y in x.elts)) for x in v.elts):
                continue
            roots = {y.id for x in ast.walk(v) for y in [x] if isinstance(y, ast.Name)}
            if any(stores.get(r, 0) > 1 for r in roots):
                continue
            # an attribute read in a row is evaluated when the table is built: it must denote the same thing later
            if any(isinstance(x, ast.Attribute) and ('*' in _MUTABLE or x.attr in _MUTABLE) for x in ast.walk(v)):
                continue
            uses = [x for x in ast.walk(fn) if isinstance(x, ast.Name) and x.id == nm and isinstance(x.ctx, ast.Load)]
            iters = [x for x in ast.walk(fn) if isinstance(x, ast.For) and isinstance(x.iter, ast.Name) and x.iter.id == nm]
            if uses and len(uses) == len(iters) and isinstance(v, ast.Tuple):
                out[nm] = v
    return out


def _unroll(fn: ast.AST, consts: dict[str, ast.expr], log: list[str]) -> None:
    local_tabs = _local_const_tables(fn)
    if local_tabs:
        consts = {**consts, **local_tabs}
    global _CUR_CONSTS
    _CUR_CONSTS = consts
    changed = True
    rounds = 0
    while changed and rounds < 3:
        changed = False
        rounds += 1
        for owner, blk in list(_blocks(fn)):
            if isinstance(owner, (ast.ClassDef,)):
                continue
            i = 0
            while i < len(blk):
                st = blk[i]
                # `for row in TABLE: if c(row): X(row); break` with an `else:` -> if c(r1): X(r1) elif c(r2): X(r2) ... else: ELSE
                if isinstance(st, ast.For) and len(st.body) == 1 and isinstance(st.body[0], ast.If) and not st.body[0].orelse and st.body[0].body \
                        and isinstance(st.body[0].body[-1], ast.Break) and not _has_jump(st.body[0].body[:-1]) and not _has_jump(st.orelse or []):
                    seq0 = _const_seq(st.iter, consts)
                    tn0 = [x.id for x in ast.walk(st.target) if isinstance(x, ast.Name)]
                    ok0 = seq0 is not None and (isinstance(st.target, ast.Name) or (isinstance(st.target, ast.Tuple) and all(isinstance(e, ast.Name) for e in st.target.elts)
                                                                                   and all(isinstance(x, ast.Tuple) and len(x.elts) == len(st.target.elts) for x in seq0)))
                    if ok0:
                        bst = set()
                        for b in st.body:
                            bst |= _stores(b)
                        if set(tn0) & bst or set(tn0) & _loads(blk[i + 1:]) or set(tn0) & _loads(st.orelse or []):
                            ok0 = False
                    if ok0:
                        chain: list[ast.stmt] = list(st.orelse) if st.orelse else []
                        for x in reversed(seq0):
                            m0 = {st.target.id: x} if isinstance(st.target, ast.Name) else {t.id: y for t, y in zip(st.target.elts, x.elts)}
                            sub0 = _Sub(m0)
                            iff = copy.deepcopy(st.body[0])
                            iff.body = iff.body[:-1] or [ast.copy_location(ast.Pass(), st)]
                            iff = sub0.visit(iff)
                            iff.orelse = chain
                            chain = [iff]
                        blk[i:i + 1] = chain
                        for x in chain:
                            ast.fix_missing_locations(x)
                        log.append(f'line {st.lineno}: search loop with break over {len(seq0)} constant rows unrolled into an if / elif chain')
                        changed = True
                        i += 1
                        continue
                if isinstance(st, ast.For) and not st.orelse and _has_jump(st.body) and _const_seq(st.iter, consts) is not None:
                    nb = _continue_to_nest(st.body)
                    if nb is not None:
                        st.body = nb
                if isinstance(st, ast.For) and not st.orelse and not _has_jump(st.body) and _const_seq(st.iter, consts) is None:
                    # zip / enumerate over sequences of known length (literal tuples, Conv2d geometry pairs)
                    seq2 = _iter_seq(st.iter, fn) if isinstance(st.iter, (ast.Call, ast.Name)) else None
                    tn2 = [n.id for n in ast.walk(st.target) if isinstance(n, ast.Name)]
                    if seq2 is not None and 0 < len(seq2) <= MAX_UNROLL:
                        body_st2 = set()
                        for b in st.body:
                            body_st2 |= _stores(b)
                        maps = []
                        for x in seq2:
                            m2: dict[str, ast.expr] = {}
                            if not _bind_target(st.target, x, m2):
                                maps = None
                                break
                            maps.append(m2)
                        if maps and not (set(tn2) & body_st2) and not (set(tn2) & _loads(blk[i + 1:])):
                            new2: list[ast.stmt] = []
                            for m2 in maps:
                                sub2 = _Sub(m2)
                                for b in st.body:
                                    new2.append(sub2.visit(copy.deepcopy(b)))
                            blk[i:i + 1] = new2
                            for nm_ in {x.id for x in ast.walk(st.iter) if isinstance(x, ast.Name)}:
                                # a zip / enumerate object bound to a local that only this loop consumed
                                if sum(1 for x in ast.walk(fn) if isinstance(x, ast.Name) and x.id == nm_) != 1:
                                    continue
                                for _o2, b2 in list(_blocks(fn)):
                                    dead = [x for x in b2 if isinstance(x, ast.Assign) and len(x.targets) == 1 and isinstance(x.targets[0], ast.Name) and x.targets[0].id == nm_
                                            and isinstance(x.value, ast.Call) and isinstance(x.value.func, ast.Name) and x.value.func.id in ('zip', 'enumerate')]
                                    for x in dead:
                                        if b2 is blk and b2.index(x) < i:
                                            i -= 1
                                        b2.remove(x)
                            log.append(f'line {st.lineno}: unrolled loop over {len(maps)} elements of {ast.unparse(st.iter)[:50]}')
                            changed = True
                            i += len(new2)
                            continue
                if isinstance(st, ast.For) and not st.orelse and not _has_jump(st.body):
                    seq = _const_seq(st.iter, consts)
                    tnames = [n.id for n in ast.walk(st.target) if isinstance(n, ast.Name)]
                    ok = seq is not None and (isinstance(st.target, ast.Name) or (isinstance(st.target, ast.Tuple) and all(isinstance(e, ast.Name) for e in st.target.elts)))
                    if ok:
                        # loop variable is not assigned in the body and not read after the loop
                        body_st = set()
                        for b in st.body:
                            body_st |= _stores(b)
                        after = _loads(blk[i + 1:])
                        fn_loads_outside = after
                        if set(tnames) & body_st or set(tnames) & fn_loads_outside:
                            ok = False
                    if ok and isinstance(st.target, ast.Tuple):
                        ok = all(isinstance(x, ast.Tuple) and len(x.elts) == len(st.target.elts) for x in seq)
                    if ok:
                        new: list[ast.stmt] = []
                        for x in seq:
                            if isinstance(st.target, ast.Name):
                                m = {st.target.id: x}
                            else:
                                m = {t.id: y for t, y in zip(st.target.elts, x.elts)}
                            sub = _Sub(m)
                            for b in st.body:
                                new.append(sub.visit(copy.deepcopy(b)))
                        blk[i:i + 1] = new
                        log.append(f'line {st.lineno}: unrolled loop over {len(seq)} constant elements')
                        changed = True
                        i += len(new)
                        continue
                i += 1


def _drop_dead_tables(fn: ast.AST, names: set[str]) -> None:
    for _o, blk in list(_blocks(fn)):
        for st in list(blk):
            if isinstance(st, ast.Assign) and len(st.targets) == 1 and isinstance(st.targets[0], ast.Name) and st.targets[0].id in names \
                    and sum(1 for x in ast.walk(fn) if isinstance(x, ast.Name) and x.id == st.targets[0].id) == 1:
                blk.remove(st)
                if not blk:
                    blk.append(ast.copy_location(ast.Pass(), st))


LOG_METHODS = {'debug', 'info', 'warning', 'warn', 'error', 'exception', 'critical', 'log'}
PURE_IN_LOG = {'get_rank', 'get_world_size', 'len', 'str', 'repr', 'int', 'float', 'round', 'sorted', 'list', 'tuple', 'type', 'format', 'join', 'getLogger', 'size', 'numel', 'nelement', 'dim',
               'keys', 'values', 'items', 'is_initialized'}


def _is_logging(st: ast.stmt) -> bool:
    """`logger.debug(...)`, `logging.info(...)`, `x.getLogger(..).warning(...)`, `print(...)` whose arguments only call pure helpers."""
    if not (isinstance(st, ast.Expr) and isinstance(st.value, ast.Call)):
        return False
    c = st.value
    f = c.func
    if isinstance(f, ast.Name) and f.id == 'print':
        pass
    elif isinstance(f, ast.Attribute) and f.attr in LOG_METHODS:
        recv = f.value
        ok = (isinstance(recv, ast.Name) and ('log' in recv.id.lower())) or \
             (isinstance(recv, ast.Call) and isinstance(recv.func, ast.Attribute) and recv.func.attr == 'getLogger') or \
             (isinstance(recv, ast.Attribute) and 'log' in recv.attr.lower())
        if not ok:
            return False
    else:
        return False
    for a in list(c.args) + [k.value for k in c.keywords]:
        for n in ast.walk(a):
            if isinstance(n, ast.Call):
                nm = n.func.attr if isinstance(n.func, ast.Attribute) else (n.func.id if isinstance(n.func, ast.Name) else None)
                if nm not in PURE_IN_LOG:
                    return False
            if isinstance(n, (ast.Await, ast.Yield, ast.YieldFrom, ast.NamedExpr)):
                return False
    return True


def _drop_logging(fn: ast.AST) -> int:
    """N11: log / print statements carry no behaviour any property speaks about."""
    n = 0
    for _owner, blk in list(_blocks(fn)):
        keep = [st for st in blk if not _is_logging(st)]
        if len(keep) != len(blk):
            n += len(blk) - len(keep)
            blk[:] = keep or [ast.copy_location(ast.Pass(), blk[0])]
    return n


def _terminal(block: list[ast.stmt]) -> bool:
    return bool(block) and isinstance(block[-1], (ast.Return, ast.Raise, ast.Continue, ast.Break))


def _drop_else(fn: ast.AST) -> None:
    """N7: `if c: ...return/raise/continue/break else: B` -> `if c: ...` followed by B (the else is redundant)."""
    def fix(blk: list[ast.stmt]) -> None:
        i = 0
        while i < len(blk):
            st = blk[i]
            if isinstance(st, ast.If) and st.orelse and _terminal(st.body):
                tail = st.orelse
                st.orelse = []
                blk[i + 1:i + 1] = tail
            for fld in ('body', 'orelse', 'finalbody'):
                sub = getattr(st, fld, None)
                if isinstance(sub, list) and sub and isinstance(sub[0], ast.stmt):
                    fix(sub)
            if isinstance(st, ast.Try):
                for h in st.handlers:
                    fix(h.body)
            i += 1
    fix(fn.body)  # type: ignore[attr-defined]


def _hoist_walrus(fn: ast.AST, log: list[str]) -> None:
    """N20: `if (x := e) <op> ...:` where the binding is the first thing the test evaluates is `x = e` followed by
    `if x <op> ...:`; likewise for an assignment or expression statement that starts with a binding."""
    for _owner, blk in list(_blocks(fn)):
        k = 0
        while k < len(blk):
            st = blk[k]
            holder, fld = None, None
            if isinstance(st, ast.If):
                holder, fld = st, 'test'
            elif isinstance(st, (ast.Return, ast.Expr)) and st.value is not None:
                holder, fld = st, 'value'
            if holder is not None:
                par, pf, idx = holder, fld, None
                cur = getattr(holder, fld)
                while True:
                    if isinstance(cur, ast.NamedExpr):
                        break
                    if isinstance(cur, ast.Compare):
                        par, pf, idx, cur = cur, 'left', None, cur.left
                    elif isinstance(cur, ast.BoolOp):
                        par, pf, idx, cur = cur, 'values', 0, cur.values[0]
                    elif isinstance(cur, ast.UnaryOp):
                        par, pf, idx, cur = cur, 'operand', None, cur.operand
                    else:
                        cur = None
                        break
                if isinstance(cur, ast.NamedExpr) and isinstance(cur.target, ast.Name):
                    name = ast.copy_location(ast.Name(id=cur.target.id, ctx=ast.Load()), cur)
                    if idx is None:
                        setattr(par, pf, name)
                    else:
                        getattr(par, pf)[idx] = name
                    asg = ast.copy_location(ast.Assign(targets=[ast.copy_location(ast.Name(id=cur.target.id, ctx=ast.Store()), cur)], value=cur.value, lineno=st.lineno), st)
                    blk.insert(k, asg)
                    log.append(f'{getattr(fn, "name", "?")}: binding expression hoisted out of a test')
                    k += 1
                    continue
            k += 1


def _lambda_callbacks(fn: ast.AST, log: list[str], prefer: list[str]) -> None:
    """N21: `f.then(lambda p: e)` is `def cb(p): return e` followed by `f.then(cb)` (the nested-function spelling of a
    completion callback; the name is the one the inventory records for this function, if any)."""
    if not isinstance(fn, (ast.FunctionDef, ast.AsyncFunctionDef)):
        return
    used = {n.id for n in ast.walk(fn) if isinstance(n, ast.Name)} | {n.name for n in ast.walk(fn) if isinstance(n, (ast.FunctionDef, ast.AsyncFunctionDef))}
    count = 0
    for _owner, blk in list(_blocks(fn)):
        if isinstance(_owner, (ast.FunctionDef, ast.AsyncFunctionDef)) and _owner is not fn:
            continue
        k = 0
        while k < len(blk):
            st = blk[k]
            if isinstance(st, (ast.Return, ast.Assign, ast.Expr)) and st.value is not None:
                for c in ast.walk(st.value):
                    if isinstance(c, ast.Call) and isinstance(c.func, ast.Attribute) and c.func.attr == 'then' and len(c.args) == 1 and not c.keywords \
                            and isinstance(c.args[0], ast.Lambda):
                        lam = c.args[0]
                        if lam.args.defaults or lam.args.kw_defaults or lam.args.vararg or lam.args.kwarg:
                            continue
                        name = next((nm for nm in prefer if nm not in used), None)
                        if name is None:
                            count += 1
                            name = f'_kfv_callback{count}'
                            while name in used:
                                count += 1
                                name = f'_kfv_callback{count}'
                        used.add(name)
                        d = ast.FunctionDef(name=name, args=lam.args, body=[ast.copy_location(ast.Return(value=lam.body), lam)], decorator_list=[], returns=None, type_comment=None)
                        if hasattr(ast, 'TypeVar'):
                            d.type_params = []      # type: ignore[attr-defined]
                        ast.copy_location(d, st)
                        c.args[0] = ast.copy_location(ast.Name(id=name, ctx=ast.Load()), lam)
                        blk.insert(k, d)
                        ast.fix_missing_locations(d)
                        log.append(f'{fn.name}: completion callback lambda spelled as the nested function {name}')
                        k += 1
                        break
            k += 1


def _next_to_loop(fn: ast.AST, log: list[str]) -> None:
    """N17: `x = next((e for t in it if c), None); if x is None: <raise>; return x` is the search loop
    `for t in it: if c: return e` followed by the raise (first match, else the failure)."""
    for _owner, blk in _blocks(fn):
        k = 0
        while k + 2 < len(blk) + 0:
            a, b, c = blk[k], blk[k + 1], blk[k + 2]
            k += 1
            if not (isinstance(a, ast.Assign) and len(a.targets) == 1 and isinstance(a.targets[0], ast.Name)):
                continue
            x = a.targets[0].id
            v = a.value
            if not (isinstance(v, ast.Call) and isinstance(v.func, ast.Name) and v.func.id == 'next' and len(v.args) == 2 and not v.keywords
                    and isinstance(v.args[0], ast.GeneratorExp) and isinstance(v.args[1], ast.Constant) and v.args[1].value is None):
                continue
            gen = v.args[0]
            if len(gen.generators) != 1 or gen.generators[0].is_async or not gen.generators[0].ifs:
                continue
            g = gen.generators[0]
            tnames = {n.id for n in ast.walk(g.target) if isinstance(n, ast.Name)}
            if not all(tnames & {n.id for n in ast.walk(i) if isinstance(n, ast.Name)} for i in g.ifs):
                continue
            if not (isinstance(b, ast.If) and not b.orelse and isinstance(b.test, ast.Compare) and len(b.test.ops) == 1 and isinstance(b.test.ops[0], ast.Is)
                    and isinstance(b.test.left, ast.Name) and b.test.left.id == x and isinstance(b.test.comparators[0], ast.Constant) and b.test.comparators[0].value is None
                    and b.body and isinstance(b.body[-1], ast.Raise)):
                continue
            if not (isinstance(c, ast.Return) and isinstance(c.value, ast.Name) and c.value.id == x):
                continue
            if any(isinstance(n, ast.Name) and n.id == x for st in b.body for n in ast.walk(st)):
                continue
            test = g.ifs[0] if len(g.ifs) == 1 else ast.BoolOp(op=ast.And(), values=list(g.ifs))
            loop = ast.For(target=g.target, iter=g.iter, body=[ast.If(test=test, body=[ast.Return(value=gen.elt)], orelse=[])], orelse=[], type_comment=None)
            for n in ast.walk(g.target):
                if isinstance(n, ast.Name):
                    n.ctx = ast.Store()
            ast.copy_location(loop, a)
            ast.copy_location(loop.body[0], a)
            ast.copy_location(loop.body[0].body[0], a)
            blk[k - 1:k + 2] = [loop] + b.body
            ast.fix_missing_locations(loop)
            log.append(f'{getattr(fn, "name", "?")}: next(generator, None) search rewritten as the equivalent loop')


def run(tree: ast.Module, mutable: set[str] | None = None, modname: str = '') -> tuple[ast.Module, list[str]]:
    mutable = {'*'} if mutable is None else mutable
    global _MUTABLE
    _MUTABLE = mutable
    log: list[str] = []
    consts = _module_consts(tree)
    for fn in [n for n in ast.walk(tree) if isinstance(n, (ast.FunctionDef, ast.AsyncFunctionDef))]:
        # N1
        for _owner, blk in _blocks(fn):
            for k, st in enumerate(blk):
                if isinstance(st, ast.AnnAssign) and st.value is not None:
                    a = ast.copy_location(ast.Assign(targets=[st.target], value=st.value, lineno=st.lineno), st)
                    a._kfv_ann = st.annotation  # type: ignore[attr-defined]
                    blk[k] = a
    from kfv import localnames
    inv = localnames.table()
    fns = [(f'{modname}.{n.name}', n) for n in tree.body if isinstance(n, (ast.FunctionDef, ast.AsyncFunctionDef))] + \
          [(f'{modname}.{c.name}.{m.name}', m) for c in tree.body if isinstance(c, ast.ClassDef) for m in c.body if isinstance(m, (ast.FunctionDef, ast.AsyncFunctionDef))]
    for q, fn in fns:
        # locals the inventory knows by name are part of the shape the rules expect: never substituted away
        keep = {k[0] for k in inv.get(q, [])} | {k[0] for qq, v in inv.items() if qq.startswith(q + '.<locals>.') for k in v}
        _drop_logging(fn)
        n0 = len(log)
        missing_cb = sorted({qq[len(q) + len('.<locals>.'):].split('.')[0] for qq in inv if qq.startswith(q + '.<locals>.')}
                            - {n.name for n in ast.walk(fn) if isinstance(n, (ast.FunctionDef, ast.AsyncFunctionDef))})
        if missing_cb:
            # the inventory records a nested callback this function no longer has
            _lambda_callbacks(fn, log, missing_cb)
        _hoist_walrus(fn, log)
        _next_to_loop(fn, log)
        _drop_else(fn)
        lt_ = set(_local_const_tables(fn))
        _unroll(fn, consts, log)
        if lt_:
            _drop_dead_tables(fn, lt_)
        _fold(fn, keep)
        for _owner, blk in _blocks(fn):
            _copy_prop(blk, mutable, fn.name == '__init__', keep)
        _drop_dead_copies(fn, keep)
        if (len(log) > n0 or getattr(fn, '_kfv_resplit', False)) and q in inv:
            # the function changed shape (unrolled table loop, split temporaries): bring the result back to the
            # inventory spelling (single-use temporaries, comparison orientation, argument style)
            fn._kfv_resplit = False  # type: ignore[attr-defined]
            try:
                localnames.restore_function(q, fn, log)
                _fold(fn, keep)
                _drop_else(fn)
            except Exception as e:  # noqa: BLE001
                log.append(f'{q}: re-canonicalisation after unrolling skipped ({type(e).__name__}: {e})')
    ast.fix_missing_locations(tree)
    return tree, log
