"""Macro-expansion of *new* helper functions.

The rules are written against the repository's function inventory
(`known_api.json`).  A refactoring that extracts a helper — a predicate, a
validator, a selection, a phase of a long method — adds a function that is not
in that inventory; it is expanded at its call sites (same AST, copied with the
parameters substituted) so that every rule sees the code it would have seen
before the extraction.  Three call shapes are expanded:

  E  expression helper   body == `return <expr>`              call replaced by the expression
  S  statement helper    `helper(...)` as a statement         body spliced in (no value returned)
  A  assignment helper   `x = helper(...)`, tail returns      body spliced in, `return e` -> `x = e`

Anything else (recursion, non-tail returns, *args) is left alone; the rules
then report INCOMPLETE if they needed to look inside.
"""
from __future__ import annotations

import ast
import copy
import json
import os

KNOWN = os.path.join(os.path.dirname(os.path.abspath(__file__)), 'known_api.json')


def known_functions() -> set[str]:
    with open(KNOWN) as fh:
        return set(json.load(fh)['functions'])


_NESTED: dict[int, list[ast.stmt]] = {}


def _terminal(block: list[ast.stmt]) -> bool:
    if not block:
        return False
    last = block[-1]
    if isinstance(last, (ast.Return, ast.Raise, ast.Continue, ast.Break)):
        return True
    # an if / elif / else all of whose branches leave
    return isinstance(last, ast.If) and bool(last.orelse) and _terminal(last.body) and _terminal(last.orelse)


def _renest(block: list[ast.stmt]) -> list[ast.stmt]:
    """`if c: ...return;  REST` -> `if c: ...return else: REST` (the inverse of N7), so that every return of a helper
    written with guard clauses is in tail position."""
    out: list[ast.stmt] = []
    for i, st in enumerate(block):
        if isinstance(st, ast.If):
            st.body = _renest(st.body)
            st.orelse = _renest(st.orelse)
            if not st.orelse and _terminal(st.body) and i + 1 < len(block) and _has_return(st):
                st.orelse = _renest(block[i + 1:])
                out.append(st)
                return out
        out.append(st)
    return out


def _body(fn: ast.AST) -> list[ast.stmt]:
    got = _NESTED.get(id(fn))
    if got is not None:
        return got
    b = [copy.deepcopy(st) for st in fn.body]  # type: ignore[attr-defined]
    if b and isinstance(b[0], ast.Expr) and isinstance(b[0].value, ast.Constant) and isinstance(b[0].value.value, str):
        b = b[1:]
    b = _renest(b)
    _inline_adjacent_temps(b, {a.arg for a in fn.args.posonlyargs + fn.args.args + fn.args.kwonlyargs})  # type: ignore[attr-defined]
    _NESTED[id(fn)] = b
    return b


def _inline_adjacent_temps(block: list[ast.stmt], params: set[str], whole: list[ast.stmt] | None = None) -> None:
    """`t = e` immediately followed by the only statement that reads `t` (once), where nothing but the operations
    enclosing that read is evaluated before it: the read is replaced by `e` (a helper written with an explaining
    temporary is the same expression helper)."""
    whole = block if whole is None else whole
    for st in block:
        for fld in ('body', 'orelse', 'finalbody'):
            sub = getattr(st, fld, None)
            if isinstance(sub, list) and sub and isinstance(sub[0], ast.stmt):
                _inline_adjacent_temps(sub, params, whole)
    k = 0
    while k + 1 < len(block):
        a, b = block[k], block[k + 1]
        if isinstance(a, ast.Assign) and len(a.targets) == 1 and isinstance(a.targets[0], ast.Name) and a.targets[0].id not in params \
                and isinstance(b, (ast.Return, ast.Assign, ast.Expr, ast.AugAssign)):
            t = a.targets[0].id
            everywhere = sum(1 for s_ in whole for n in ast.walk(s_) if isinstance(n, ast.Name) and n.id == t)
            reads = [n for n in ast.walk(b) if isinstance(n, ast.Name) and n.id == t and isinstance(n.ctx, ast.Load)]
            if everywhere == 2 and len(reads) == 1 and not any(isinstance(n, (ast.Lambda, ast.ListComp, ast.SetComp, ast.DictComp, ast.GeneratorExp)) and any(x is reads[0] for x in ast.walk(n)) for n in ast.walk(b)):
                # calls in b that are not ancestors of the read would be evaluated in a different order
                anc: set[int] = set()

                def mark(n: ast.AST) -> bool:
                    hit = n is reads[0]
                    for c in ast.iter_child_nodes(n):
                        if mark(c):
                            hit = True
                    if hit:
                        anc.add(id(n))
                    return hit
                mark(b)
                if all(id(n) in anc for n in ast.walk(b) if isinstance(n, (ast.Call, ast.Await, ast.Yield, ast.YieldFrom, ast.NamedExpr))):
                    class _R(ast.NodeTransformer):
                        def visit_Name(self, n: ast.Name) -> ast.AST:  # noqa: N802
                            return a.value if n is reads[0] else n
                    block[k + 1] = _R().visit(b)
                    del block[k]
                    k = max(k - 1, 0)
                    continue
        k += 1


def _assigned(stmts: list[ast.stmt]) -> set[str]:
    out = set()
    for st in stmts:
        for n in ast.walk(st):
            if isinstance(n, ast.Name) and isinstance(n.ctx, (ast.Store, ast.Del)):
                out.add(n.id)
    return out


def _simple(e: ast.expr) -> bool:
    if isinstance(e, (ast.Name, ast.Constant)):
        return True
    if isinstance(e, ast.Attribute) and isinstance(e.value, ast.Call) and isinstance(e.value.func, ast.Name) and e.value.func.id == 'super' \
            and not e.value.args and not e.value.keywords:
        return True       # super().m: a bound method of the same object, valid anywhere in a method of the same class
    if isinstance(e, ast.Attribute):
        return _simple(e.value)
    if isinstance(e, ast.Subscript):
        return _simple(e.value) and isinstance(e.slice, (ast.Constant, ast.Name))
    return False


def _tail_returns_only(stmts: list[ast.stmt]) -> bool:
    """Every `return` is in tail position of the function body."""
    def tail(block: list[ast.stmt]) -> bool:
        for i, st in enumerate(block):
            last = i == len(block) - 1
            if isinstance(st, ast.Return):
                if not last:
                    return False
            elif isinstance(st, ast.If):
                if last:
                    if not tail(st.body) or not tail(st.orelse):
                        return False
                elif _has_return(st):
                    return False
            elif _has_return(st):
                return False
        return True
    return tail(stmts)


def _as_expr(body: list[ast.stmt]) -> ast.expr | None:
    """The body as one expression: `return e`, or `if c: return a` (elif/else likewise) followed by the rest."""
    if not body:
        return None
    st = body[0]
    if isinstance(st, ast.Return) and st.value is not None:
        return st.value
    if isinstance(st, ast.If):
        a = _as_expr(st.body)
        if a is None:
            return None
        rest = st.orelse if st.orelse else body[1:]
        if st.orelse and len(body) > 1:
            return None
        b = _as_expr(rest)
        if b is None:
            return None
        return ast.copy_location(ast.IfExp(test=st.test, body=a, orelse=b), st)
    return None


def _nested_path(root: ast.AST, target: ast.AST) -> list[str] | None:
    if root is target:
        return []
    for ch in ast.iter_child_nodes(root):
        if isinstance(ch, (ast.FunctionDef, ast.AsyncFunctionDef)):
            p_ = _nested_path(ch, target)
            if p_ is not None:
                return [ch.name] + p_
        elif not isinstance(ch, (ast.ClassDef, ast.Lambda)):
            p_ = _nested_path_through(ch, target)
            if p_ is not None:
                return p_
    return None


def _nested_path_through(node: ast.AST, target: ast.AST) -> list[str] | None:
    for ch in ast.iter_child_nodes(node):
        if isinstance(ch, (ast.FunctionDef, ast.AsyncFunctionDef)):
            p_ = _nested_path(ch, target)
            if p_ is not None:
                return [ch.name] + p_
        elif not isinstance(ch, (ast.ClassDef, ast.Lambda)):
            p_ = _nested_path_through(ch, target)
            if p_ is not None:
                return p_
    return None


def _argsafe(e: ast.expr) -> bool:
    """An argument that can be written in place of the parameter: plain names / attribute reads / constants, and tests or
    conditional expressions over those (no calls)."""
    if _simple(e):
        return True
    if isinstance(e, ast.IfExp):
        return _argsafe(e.test) and _argsafe(e.body) and _argsafe(e.orelse)
    if isinstance(e, ast.Compare):
        return _argsafe(e.left) and all(_argsafe(c) for c in e.comparators)
    if isinstance(e, ast.UnaryOp):
        return _argsafe(e.operand)
    if isinstance(e, ast.BoolOp):
        return all(_argsafe(v) for v in e.values)
    return False


def _comp_bound(e: ast.AST) -> set[str]:
    return {x.id for c in ast.walk(e) if isinstance(c, (ast.ListComp, ast.SetComp, ast.DictComp, ast.GeneratorExp)) for g in c.generators
            for x in ast.walk(g.target) if isinstance(x, ast.Name)}


def _first_evaluated_call(st: ast.stmt, name: str, nparams: int = 0) -> tuple[ast.AST, str, int | None, ast.Call] | None:
    """The call `name()` when it is the first non-trivial thing statement `st` evaluates (only plain names and
    constants are read before it): (parent, field, index, call)."""
    if not isinstance(st, (ast.Assign, ast.AugAssign, ast.AnnAssign, ast.Expr, ast.Return)) or getattr(st, 'value', None) is None:
        return None
    if isinstance(st, ast.Assign) and not all(isinstance(t, ast.Name) for t in st.targets):
        return None
    if isinstance(st, (ast.AugAssign, ast.AnnAssign)) and not isinstance(st.target, ast.Name):
        return None
    par: ast.AST = st
    fld, idx, cur = 'value', None, st.value
    while True:
        if isinstance(cur, ast.Call):
            if isinstance(cur.func, ast.Name) and cur.func.id == name and len(cur.args) == nparams and not cur.keywords \
                    and all(isinstance(a_, (ast.Name, ast.Constant)) for a_ in cur.args):
                return par, fld, idx, cur
            if isinstance(cur.func, ast.Name) and cur.args and not isinstance(cur.args[0], ast.Starred):
                par, fld, idx, cur = cur, 'args', 0, cur.args[0]
            elif isinstance(cur.func, ast.Attribute):
                par, fld, idx, cur = cur.func, 'value', None, cur.func.value
            else:
                return None
        elif isinstance(cur, ast.Subscript):
            if isinstance(cur.value, (ast.Name, ast.Constant)):
                par, fld, idx, cur = cur, 'slice', None, cur.slice
            else:
                par, fld, idx, cur = cur, 'value', None, cur.value
        elif isinstance(cur, ast.Attribute):
            par, fld, idx, cur = cur, 'value', None, cur.value
        elif isinstance(cur, (ast.BinOp, ast.Compare)):
            par, fld, idx, cur = cur, 'left', None, cur.left
        else:
            return None


def _expand_closures(fn: ast.AST, skip_known: tuple[str, set[str]] | None = None) -> bool:
    """Parameterless nested helpers of a new function (`def inner(): <straight-line statements>; return e`, only ever
    called) are spliced at their call sites: a closure reads the enclosing scope at call time, which is what the
    spliced statements do."""
    done = False
    counter = 0
    for st in list(fn.body):  # type: ignore[attr-defined]
        if not isinstance(st, ast.FunctionDef) or st.decorator_list:
            continue
        a = st.args
        if skip_known is not None and f'{skip_known[0]}.<locals>.{st.name}' in skip_known[1]:
            continue        # a nested function the inventory knows
        if a.args and not (a.posonlyargs or a.kwonlyargs or a.vararg or a.kwarg):
            # calls written with keywords: the same arguments in positional order
            pn_ = [x.arg for x in a.args]
            for c in [n for n in ast.walk(fn) if isinstance(n, ast.Call) and isinstance(n.func, ast.Name) and n.func.id == st.name and n.keywords]:
                if any(k.arg is None or k.arg not in pn_ for k in c.keywords) or any(isinstance(x, ast.Starred) for x in c.args):
                    continue
                given = dict(zip(pn_, c.args))
                if any(k.arg in given for k in c.keywords):
                    continue
                given.update({k.arg: k.value for k in c.keywords})
                # a contiguous prefix of the parameters must be given (the rest have defaults)
                npre = 0
                while npre < len(pn_) and pn_[npre] in given:
                    npre += 1
                if len(given) == npre:
                    c.args = [given[p_] for p_ in pn_[:npre]]
                    c.keywords = []
        if a.defaults and not (a.posonlyargs or a.kwonlyargs or a.vararg or a.kwarg):
            # a default is evaluated once, where the closure is defined: bind it to a local there and pass it explicitly
            calls_d = [n for n in ast.walk(fn) if isinstance(n, ast.Call) and isinstance(n.func, ast.Name) and n.func.id == st.name]
            uses_d = [n for n in ast.walk(fn) if isinstance(n, ast.Name) and n.id == st.name]
            npos = len(a.args)
            ndef = len(a.defaults)
            if calls_d and len(calls_d) == len(uses_d) and all(not c.keywords and npos - ndef <= len(c.args) <= npos and not any(isinstance(x, ast.Starred) for x in c.args) for c in calls_d):
                k_ = next(i for i, y in enumerate(fn.body) if y is st)  # type: ignore[attr-defined]
                names_ = []
                for j_, d_ in enumerate(a.defaults):
                    counter += 1
                    nm_ = f'{a.args[npos - ndef + j_].arg}__default{counter}'
                    names_.append(nm_)
                    asg_ = ast.copy_location(ast.Assign(targets=[ast.Name(id=nm_, ctx=ast.Store())], value=d_, lineno=st.lineno), st)
                    ast.fix_missing_locations(asg_)
                    fn.body.insert(k_, asg_)  # type: ignore[attr-defined]
                    k_ += 1
                for c in calls_d:
                    missing = npos - len(c.args)
                    for nm_ in names_[ndef - missing:] if missing else []:
                        c.args.append(ast.copy_location(ast.Name(id=nm_, ctx=ast.Load()), c))
                a.defaults = []
                done = True
        if a.args and not (a.posonlyargs or a.kwonlyargs or a.vararg or a.kwarg or a.defaults):
            # an expression closure with plain parameters, applied to plain arguments: its expression with the arguments in place
            body_ = [x for x in st.body if not (isinstance(x, ast.Expr) and isinstance(x.value, ast.Constant))]
            if len(body_) == 1 and isinstance(body_[0], ast.Return) and body_[0].value is not None \
                    and not any(isinstance(n, (ast.Lambda, ast.Yield, ast.YieldFrom, ast.Await, ast.NamedExpr)) for n in ast.walk(body_[0].value)):
                params_ = [x.arg for x in a.args]
                uses_ = [n for n in ast.walk(fn) if isinstance(n, ast.Name) and n.id == st.name]
                calls_ = [n for n in ast.walk(fn) if isinstance(n, ast.Call) and isinstance(n.func, ast.Name) and n.func.id == st.name and not n.keywords
                          and len(n.args) == len(params_) and all(_argsafe(x) for x in n.args)]
                bound_ = {n.id for n in ast.walk(body_[0].value) if isinstance(n, ast.Name) and isinstance(n.ctx, ast.Store)}
                argnames_ = {x.id for c_ in calls_ for a_ in c_.args for x in ast.walk(a_) if isinstance(x, ast.Name)}
                if uses_ and len(uses_) == len(calls_) and not (bound_ & argnames_) and not (bound_ - _comp_bound(body_[0].value)):
                    expr_ = body_[0].value

                    class _Rp(ast.NodeTransformer):
                        def visit_Call(self, n: ast.Call) -> ast.AST:  # noqa: N802
                            self.generic_visit(n)
                            if any(n is c_ for c_ in calls_):
                                m_ = dict(zip(params_, n.args))

                                class _S(ast.NodeTransformer):
                                    def visit_Name(self, x: ast.Name) -> ast.AST:  # noqa: N802
                                        return copy.deepcopy(m_[x.id]) if x.id in m_ and isinstance(x.ctx, ast.Load) else x
                                return ast.copy_location(_S().visit(copy.deepcopy(expr_)), n)
                            return n
                    fn.body.remove(st)  # type: ignore[attr-defined]
                    _Rp().visit(fn)
                    ast.fix_missing_locations(fn)
                    done = True
                    continue
        if a.posonlyargs or a.kwonlyargs or a.vararg or a.kwarg or a.defaults:
            continue
        cparams = [x.arg for x in a.args]
        body = [copy.deepcopy(x) for x in st.body]
        if body and isinstance(body[0], ast.Expr) and isinstance(body[0].value, ast.Constant):
            body = body[1:]
        _inline_adjacent_temps(body, set())       # explaining temporaries of the closure itself
        if body and not any(isinstance(n, (ast.Return, ast.Yield, ast.YieldFrom, ast.Await, ast.Nonlocal, ast.Global, ast.FunctionDef, ast.Lambda)) for x in body for n in ast.walk(x)):
            # a procedure: every use is the statement `name()`
            uses = [n for n in ast.walk(fn) if isinstance(n, ast.Name) and n.id == st.name]
            psites = []
            stack = [fn]
            while stack:
                o = stack.pop()
                for fld in ('body', 'orelse', 'finalbody'):
                    blk = getattr(o, fld, None)
                    if isinstance(blk, list) and blk and isinstance(blk[0], ast.stmt):
                        for x in blk:
                            if isinstance(x, ast.Expr) and isinstance(x.value, ast.Call) and isinstance(x.value.func, ast.Name) and x.value.func.id == st.name \
                                    and len(x.value.args) == len(a.args) and not x.value.keywords and all(isinstance(y_, (ast.Name, ast.Constant)) for y_ in x.value.args):
                                psites.append((blk, x))
                            elif x is not st:
                                stack.append(x)
                for h_ in getattr(o, 'handlers', []) or []:
                    stack.append(h_)
            inner_locals = {n.id for x in body for n in ast.walk(x) if isinstance(n, ast.Name) and isinstance(n.ctx, ast.Store)}
            pnames = [x_.arg for x_ in a.args]
            rebinds_param = any(isinstance(n, ast.Name) and n.id in pnames and isinstance(n.ctx, ast.Store) for y in body for n in ast.walk(y))
            if uses and len(psites) == len(uses) and not inner_locals and not rebinds_param and not (a.posonlyargs or a.kwonlyargs or a.vararg or a.kwarg or a.defaults):
                for blk, x in psites:
                    k = next(i for i, y in enumerate(blk) if y is x)
                    pm_ = dict(zip(pnames, x.value.args))

                    class _Sp(ast.NodeTransformer):
                        def visit_Name(self, n: ast.Name) -> ast.AST:  # noqa: N802
                            return copy.deepcopy(pm_[n.id]) if n.id in pm_ and isinstance(n.ctx, ast.Load) else n
                    cp = [_Sp().visit(copy.deepcopy(y)) for y in body]
                    for y in cp:
                        for n in ast.walk(y):
                            if hasattr(n, 'lineno'):
                                n.lineno = x.lineno
                                n.end_lineno = getattr(x, 'end_lineno', x.lineno)
                    blk[k:k + 1] = cp
                fn.body.remove(st)  # type: ignore[attr-defined]
                ast.fix_missing_locations(fn)
                done = True
            continue
        if not body or not isinstance(body[-1], ast.Return) or body[-1].value is None:
            continue
        if any(not isinstance(x, (ast.Assign, ast.AugAssign, ast.AnnAssign, ast.Expr)) for x in body[:-1]):
            continue
        if any(isinstance(n, (ast.Nonlocal, ast.Global, ast.Yield, ast.YieldFrom, ast.Await, ast.Return, ast.FunctionDef, ast.Lambda)) for x in body[:-1] for n in ast.walk(x)):
            continue
        uses = [n for n in ast.walk(fn) if isinstance(n, ast.Name) and n.id == st.name]
        if not uses:
            continue
        inner_locals = {n.id for x in body for n in ast.walk(x) if isinstance(n, ast.Name) and isinstance(n.ctx, ast.Store)}
        outer_names = {n.id for x in fn.body if x is not st for n in ast.walk(x) if isinstance(n, ast.Name)}  # type: ignore[attr-defined]
        sites = []
        ok = True
        for _owner, blk in _stmt_blocks(fn, st):
            for k, s_ in enumerate(blk):
                n_here = sum(1 for n in ast.walk(s_) if isinstance(n, ast.Name) and n.id == st.name) if not isinstance(s_, (ast.If, ast.For, ast.While, ast.With, ast.Try)) else \
                    sum(1 for n in ast.walk(getattr(s_, 'test', None) or getattr(s_, 'iter', None) or ast.Pass()) if isinstance(n, ast.Name) and n.id == st.name)
                if not n_here:
                    continue
                hit = _first_evaluated_call(s_, st.name, len(cparams)) if n_here == 1 else None
                if hit is None:
                    ok = False
                else:
                    sites.append((blk, s_, hit))
        if not ok or len(sites) != len(uses):
            continue
        for blk, s_, (par, fld, idx, call) in sites:
            counter += 1
            ren = {nm: f'{nm}__{st.name.lstrip("_")}{counter}' for nm in inner_locals if nm in outer_names}

            pmap = dict(zip(cparams, call.args))
            if any(isinstance(n, ast.Name) and n.id in pmap and isinstance(n.ctx, ast.Store) for x in body for n in ast.walk(x)):
                continue       # the closure re-binds a parameter

            class _Rn(ast.NodeTransformer):
                def visit_Name(self, n: ast.Name) -> ast.AST:  # noqa: N802
                    if n.id in pmap and isinstance(n.ctx, ast.Load):
                        return copy.deepcopy(pmap[n.id])
                    if n.id in ren:
                        return ast.copy_location(ast.Name(id=ren[n.id], ctx=n.ctx), n)
                    return n
            pre = [_Rn().visit(copy.deepcopy(x)) for x in body[:-1]]
            val = _Rn().visit(copy.deepcopy(body[-1].value))
            for x in pre + [val]:
                for n in ast.walk(x):
                    if hasattr(n, 'lineno'):
                        n.lineno = s_.lineno
                        n.end_lineno = getattr(s_, 'end_lineno', s_.lineno)
            if idx is None:
                setattr(par, fld, val)
            else:
                getattr(par, fld)[idx] = val
            k = next(i for i, x in enumerate(blk) if x is s_)
            blk[k:k] = pre
        fn.body.remove(st)  # type: ignore[attr-defined]
        ast.fix_missing_locations(fn)
        done = True
    return done


def _stmt_blocks(fn: ast.AST, skip: ast.AST):  # noqa: ANN201
    """(owner, statement list) for every block of fn outside nested definitions."""
    stack = [fn]
    while stack:
        n = stack.pop()
        for fld in ('body', 'orelse', 'finalbody'):
            blk = getattr(n, fld, None)
            if isinstance(blk, list) and blk and isinstance(blk[0], ast.stmt):
                yield n, blk
                for x in blk:
                    if x is not skip and not isinstance(x, (ast.FunctionDef, ast.AsyncFunctionDef, ast.ClassDef)):
                        stack.append(x)
        for h in getattr(n, 'handlers', []) or []:
            stack.append(h)


def _jumps(body: list[ast.stmt]) -> bool:
    return any(isinstance(n, (ast.Break, ast.Continue, ast.Return, ast.Yield, ast.YieldFrom, ast.Await)) for st in body for n in ast.walk(st))


def _single_yield(body: list[ast.stmt]) -> bool:
    """A generator whose only suspension point is one `yield e` statement, with no return, try or with."""
    ys = 0
    for st in body:
        for n in ast.walk(st):
            if isinstance(n, (ast.FunctionDef, ast.AsyncFunctionDef, ast.Lambda, ast.YieldFrom, ast.Return, ast.Try, ast.With, ast.AsyncWith, ast.Await, ast.Break)):
                return False
            if isinstance(n, ast.Yield):
                ys += 1
    if ys != 1:
        return False

    def stmt_yield(block: list[ast.stmt]) -> bool:
        for st in block:
            if isinstance(st, ast.Expr) and isinstance(st.value, ast.Yield):
                return True
            for fld in ('body', 'orelse'):
                sub = getattr(st, fld, None)
                if isinstance(sub, list) and sub and isinstance(sub[0], ast.stmt) and stmt_yield(sub):
                    return True
        return False
    return stmt_yield(body)


def _splice_at_yield(block: list[ast.stmt], target: ast.expr, body: list[ast.stmt]) -> bool:
    for k, st in enumerate(block):
        if isinstance(st, ast.Expr) and isinstance(st.value, ast.Yield):
            val = st.value.value if st.value.value is not None else ast.copy_location(ast.Constant(value=None), st)
            tgt = copy.deepcopy(target)
            asg = ast.copy_location(ast.Assign(targets=[tgt], value=val, lineno=st.lineno), st)
            if ast.unparse(tgt) == ast.unparse(val):
                block[k:k + 1] = list(body)        # the yielded locals already carry the target names
                return True
            block[k:k + 1] = [asg] + body
            ast.fix_missing_locations(asg)
            return True
        for fld in ('body', 'orelse'):
            sub = getattr(st, fld, None)
            if isinstance(sub, list) and sub and isinstance(sub[0], ast.stmt) and _splice_at_yield(sub, target, body):
                return True
    return False


def _has_return(st: ast.AST) -> bool:
    for n in ast.walk(st):
        if isinstance(n, (ast.FunctionDef, ast.AsyncFunctionDef, ast.Lambda)) and n is not st:
            continue
        if isinstance(n, ast.Return):
            return True
    return False


class _Subst(ast.NodeTransformer):
    """Copies helper code to a call site: parameters substituted, clashing locals renamed.  Copied nodes are
    re-located to the call site (ordering rules compare positions) and remember their module and original
    position for type lookups (`_kfv_mod`, `_kfv_pos`)."""

    def __init__(self, mapping: dict[str, ast.expr], rename: dict[str, str], mod: str, site: ast.AST | None = None,
                 alias: dict[str, ast.expr] | None = None) -> None:
        self.alias = alias or {}
        self.mapping = mapping
        self.rename = rename
        self.mod = mod
        self.site = site

    def _mark(self, node: ast.AST) -> ast.AST:
        if hasattr(node, 'lineno'):
            if not hasattr(node, '_kfv_pos'):
                node._kfv_pos = (node.lineno, node.col_offset, getattr(node, 'end_lineno', None), getattr(node, 'end_col_offset', None))  # type: ignore[attr-defined]
                node._kfv_mod = self.mod  # type: ignore[attr-defined]
            if self.site is not None:
                node._kfv_line = getattr(self.site, '_kfv_line', self.site.lineno)  # type: ignore[attr-defined]
        return node

    def visit_Name(self, n: ast.Name) -> ast.AST:  # noqa: N802
        if n.id in self.alias:
            t = copy.deepcopy(self.alias[n.id])
            t.ctx = type(n.ctx)()  # type: ignore[attr-defined]
            return t
        if n.id in self.mapping and isinstance(n.ctx, ast.Load):
            return copy.deepcopy(self.mapping[n.id])
        if n.id in self.rename:
            return self._mark(ast.copy_location(ast.Name(id=self.rename[n.id], ctx=n.ctx), n))
        return self._mark(n)

    def generic_visit(self, node: ast.AST) -> ast.AST:
        node = super().generic_visit(node)
        return self._mark(node)


def _bind(call: ast.Call, fn: ast.AST, is_method: bool, recv: ast.expr | None) -> dict[str, ast.expr] | None:
    a = fn.args  # type: ignore[attr-defined]
    if a.vararg or a.kwarg or any(isinstance(x, ast.Starred) for x in call.args) or any(k.arg is None for k in call.keywords):
        return None
    names = [x.arg for x in a.posonlyargs + a.args]
    out: dict[str, ast.expr] = {}
    if is_method and names[:1] in (['self'], ['cls']):
        out[names[0]] = recv if recv is not None else ast.Name(id='self', ctx=ast.Load())
        names = names[1:]
    if len(call.args) > len(names):
        return None
    for n, v in zip(names, call.args):
        out[n] = v
    kwnames = names + [x.arg for x in a.kwonlyargs]
    for k in call.keywords:
        if k.arg not in kwnames or k.arg in out:
            return None
        out[k.arg] = k.value
    allp = a.posonlyargs + a.args
    defaults = dict(zip([x.arg for x in allp][len(allp) - len(a.defaults):], a.defaults))
    for x, d in zip(a.kwonlyargs, a.kw_defaults):
        if d is not None:
            defaults[x.arg] = d
    for n in kwnames:
        if n not in out:
            if n in defaults:
                out[n] = defaults[n]
            else:
                return None
    return out


def expand(prog: 'object') -> list[str]:
    """Expand calls to functions outside the known inventory, in place.  Returns a log."""
    known = known_functions()
    _NESTED.clear()
    funcs = prog.funcs  # type: ignore[attr-defined]
    new = {q: f for q, f in funcs.items() if q not in known and f.kind in ('function', 'method', 'static') and f.parent is None}
    new_nested = [q for q, f in funcs.items() if f.parent is not None and f.kind == 'nested' and q not in known and not isinstance(f.node, ast.Lambda)]
    if not new and not new_nested:
        return []
    log: list[str] = []
    by_name: dict[str, list] = {}
    for q, f in new.items():
        by_name.setdefault(f.name, []).append(f)

    def resolve(caller, call: ast.Call):  # noqa: ANN001, ANN202
        fnode = call.func
        if isinstance(fnode, ast.Name) and fnode.id in by_name:
            cands = [h for h in by_name[fnode.id] if h.cls is None and h.module == caller.module]
            cands = cands or [h for h in by_name[fnode.id] if h.cls is None]
            return (cands[0], False, None) if len(cands) == 1 else None
        if isinstance(fnode, ast.Attribute) and fnode.attr in by_name:
            cands = [h for h in by_name[fnode.attr] if h.cls is not None]
            if isinstance(fnode.value, ast.Name) and fnode.value.id in ('self', 'cls') and caller.cls:
                mro = [c.fullname for c in prog.mro(caller.cls)] + [c.fullname for c in prog.subclasses(caller.cls)]  # type: ignore[attr-defined]
                cands = [h for h in cands if h.cls in mro]
            if len(cands) == 1:
                h = cands[0]
                return (h, h.kind == 'method', fnode.value)
        return None

    def instantiate(caller, h, call, is_method, recv, counter, target=None, force=None):  # noqa: ANN001, ANN202
        b = _bind(call, h.node, is_method, recv)
        if b is None:
            return None
        body = _body(h.node)
        assigned = _assigned(body)
        # `x = helper(...)` where every return is `return <one local>`: the local *is* x (built in place)
        alias: dict[str, ast.expr] = {}
        if target is not None and _simple(target):
            rv = {n.value.id if isinstance(n.value, ast.Name) else None for st in body for n in ast.walk(st) if isinstance(n, ast.Return)}
            if len(rv) == 1 and None not in rv:
                (r,) = rv
                if r in assigned and r not in b:
                    alias[r] = target
        # `t1, t2 = helper(...)` with tuple returns: a helper local returned at the same position by every return is that target
        if target is not None and isinstance(target, ast.Tuple) and all(isinstance(t_, ast.Name) for t_ in target.elts):
            rets = [n for st in body for n in ast.walk(st) if isinstance(n, ast.Return)]
            from kfv import normalize as _nz2

            def _elts(v_: ast.expr | None) -> list[ast.expr] | None:
                if isinstance(v_, ast.Tuple):
                    return list(v_.elts)
                fl2 = _nz2._nt_fields(v_) if isinstance(v_, ast.Call) else None      # a plain NamedTuple construction unpacks as its fields
                return list(fl2.values()) if fl2 is not None else None
            if rets and all(_elts(r_.value) is not None and len(_elts(r_.value)) == len(target.elts) for r_ in rets):
                for j_, t_ in enumerate(target.elts):
                    nm = {_elts(r_.value)[j_].id if isinstance(_elts(r_.value)[j_], ast.Name) else None for r_ in rets}
                    if len(nm) == 1 and None not in nm:
                        (r,) = nm
                        if r in assigned and r not in b and r not in alias and not any(isinstance(x, ast.Name) and x.id == r for k_, tt_ in enumerate(target.elts) if k_ != j_ for x in [tt_]):
                            alias[r] = t_
        # names of the caller a helper local could interfere with; a name the caller only uses as the variable of a
        # comprehension (its own scope) cannot be captured
        comp_only: dict[str, int] = {}
        allc: dict[str, int] = {}
        for n in ast.walk(caller.node):
            if isinstance(n, ast.Name):
                allc[n.id] = allc.get(n.id, 0) + 1
        for comp in [c for c in ast.walk(caller.node) if isinstance(c, (ast.ListComp, ast.SetComp, ast.DictComp, ast.GeneratorExp))]:
            bound = {x.id for g in comp.generators for x in ast.walk(g.target) if isinstance(x, ast.Name)}
            inner_comps = [c2 for c2 in ast.walk(comp) if c2 is not comp and isinstance(c2, (ast.ListComp, ast.SetComp, ast.DictComp, ast.GeneratorExp))]
            skip = {id(x) for c2 in inner_comps for x in ast.walk(c2)}
            for x in ast.walk(comp):
                if isinstance(x, ast.Name) and x.id in bound and id(x) not in skip:
                    comp_only[x.id] = comp_only.get(x.id, 0) + 1
        caller_names = {nm for nm, k in allc.items() if comp_only.get(nm, 0) < k}
        # likewise a loop variable of the caller that is only read inside its own loop is dead at a call site
        # outside that loop
        site_loops = set()
        for lp in [x for x in ast.walk(caller.node) if isinstance(x, (ast.For, ast.AsyncFor))]:
            if any(y is call for y in ast.walk(lp)):
                site_loops |= {x.id for x in ast.walk(lp.target) if isinstance(x, ast.Name)}
        for nm in list(caller_names):
            if nm in site_loops:
                continue
            loops = [lp for lp in ast.walk(caller.node) if isinstance(lp, (ast.For, ast.AsyncFor)) and any(isinstance(x, ast.Name) and x.id == nm for x in ast.walk(lp.target))]
            if not loops:
                continue
            inside = {id(x) for lp in loops for x in ast.walk(lp)}
            others = [x for x in ast.walk(caller.node) if isinstance(x, ast.Name) and x.id == nm and id(x) not in inside]
            comp_ok = comp_only.get(nm, 0)
            if len(others) <= comp_ok and all(isinstance(x.ctx, (ast.Load, ast.Store)) for x in others):
                # every occurrence outside the loops is inside a comprehension binding it
                stray = [x for x in others if not any(any(y is x for y in ast.walk(c)) for c in ast.walk(caller.node)
                                                      if isinstance(c, (ast.ListComp, ast.SetComp, ast.DictComp, ast.GeneratorExp)))]
                if not stray:
                    caller_names.discard(nm)
        mapping: dict[str, ast.expr] = {}
        rename: dict[str, str] = {}
        pre: list[ast.stmt] = []
        tail_ok = _tail_returns_only(body)
        tnames_ = set()
        if target is not None:
            tnames_ = {target.id} if isinstance(target, ast.Name) else ({t_.id for t_ in target.elts if isinstance(t_, ast.Name)} if isinstance(target, ast.Tuple) else set())
        for p, arg in b.items():
            if p in ('self', 'cls') or (_simple(arg) and p not in assigned):
                mapping[p] = arg
            elif p in assigned and isinstance(arg, ast.Name) and arg.id in tnames_ and tail_ok \
                    and not any(isinstance(x_, ast.Name) and x_.id == arg.id for q_, a2 in b.items() if q_ != p for x_ in ast.walk(a2)):
                # the helper updates its parameter, and the caller passes the very variable that receives the result
                # (`x, y = helper(x, …)`): the parameter is that variable (results are stored at the returns only)
                rename[p] = arg.id
            else:
                nm = p if p not in caller_names else f'{p}__{h.name}{counter}'
                rename[p] = nm
                pre.append(ast.copy_location(ast.Assign(targets=[ast.Name(id=nm, ctx=ast.Store())], value=copy.deepcopy(arg), lineno=call.lineno), call))
        for y_, t_ in (force or {}).items():
            if y_ in assigned and y_ not in b:
                rename[y_] = t_
        for loc in assigned:
            if loc in alias:
                continue
            if loc in caller_names and loc not in rename:
                rename[loc] = f'{loc}__{h.name}{counter}'
        sub = _Subst(mapping, rename, h.module, call, alias)
        new_body = [sub.visit(copy.deepcopy(st)) for st in body]
        for st in pre + new_body:
            ast.fix_missing_locations(st)
        if alias and target is not None and not isinstance(target, ast.Tuple):
            new_body = _drop_self_returns(new_body, target)
        return pre, new_body

    touched_pre: dict[str, object] = {}
    # a new function handed over by reference as a completion callback (`f.then(helper)`, `f.add_done_callback(self._m)`)
    # is spelled as the local callable it stands for: a lambda for an expression helper, a nested function otherwise
    # (named as the inventory names the nested callback of that method, when it records one that is missing)
    from kfv import localnames as _ln
    inv_ = _ln.table()
    for caller in list(funcs.values()):
        if caller.parent is not None:
            continue
        q_ = caller.qualname
        recorded = sorted({qq[len(q_) + len('.<locals>.'):].split('.')[0] for qq in inv_ if qq.startswith(q_ + '.<locals>.')})
        for _own, blk in _stmt_blocks(caller.node, caller.node):
            k = 0
            while k < len(blk):
                st_ = blk[k]
                k += 1
                if isinstance(st_, (ast.If, ast.For, ast.While, ast.With, ast.Try, ast.FunctionDef)):
                    continue
                for c_ in [n for n in ast.walk(st_) if isinstance(n, ast.Call) and isinstance(n.func, ast.Attribute) and n.func.attr in ('then', 'add_done_callback')
                           and len(n.args) == 1 and not n.keywords]:
                    ref = c_.args[0]
                    h_ = None
                    if isinstance(ref, ast.Name) and ref.id in by_name:
                        cands = [x for x in by_name[ref.id] if x.cls is None]
                        h_ = cands[0] if len(cands) == 1 else None
                        drop_self = False
                    elif isinstance(ref, ast.Attribute) and isinstance(ref.value, ast.Name) and ref.value.id == 'self' and ref.attr in by_name and caller.cls:
                        cands = [x for x in by_name[ref.attr] if x.cls == caller.cls and x.kind == 'method']
                        h_ = cands[0] if len(cands) == 1 else None
                        drop_self = True
                    if h_ is None or h_ is caller:
                        continue
                    a_ = h_.node.args
                    params_ = [x.arg for x in a_.posonlyargs + a_.args]
                    if drop_self:
                        params_ = params_[1:]
                    if len(params_) != 1 or a_.vararg or a_.kwarg or a_.kwonlyargs or a_.defaults:
                        continue
                    body_ = [copy.deepcopy(x) for x in h_.node.body]
                    if body_ and isinstance(body_[0], ast.Expr) and isinstance(body_[0].value, ast.Constant):
                        body_ = body_[1:]
                    names_here = {n.id for n in ast.walk(caller.node) if isinstance(n, ast.Name)} | {n.name for n in ast.walk(caller.node) if isinstance(n, ast.FunctionDef)}
                    if len(body_) == 1 and isinstance(body_[0], ast.Return) and body_[0].value is not None and not drop_self:
                        lam = ast.Lambda(args=ast.arguments(posonlyargs=[], args=[ast.arg(arg=params_[0])], kwonlyargs=[], kw_defaults=[], defaults=[]), body=body_[0].value)
                        c_.args[0] = ast.copy_location(lam, ref)
                        ast.fix_missing_locations(c_)
                        log.append(f'{caller.short}: callback {h_.short} passed by reference spelled as a lambda')
                        touched_refs = True
                        continue
                    name_ = next((nm for nm in recorded if nm not in names_here), None) or f'_kfv_cb_{h_.name.lstrip("_")}'
                    if name_ in names_here:
                        continue
                    d_ = ast.FunctionDef(name=name_, args=ast.arguments(posonlyargs=[], args=[ast.arg(arg=params_[0])], kwonlyargs=[], kw_defaults=[], defaults=[]),
                                         body=body_ or [ast.Pass()], decorator_list=[], returns=None, type_comment=None)
                    if hasattr(ast, 'TypeVar'):
                        d_.type_params = []      # type: ignore[attr-defined]
                    ast.copy_location(d_, st_)
                    for n in ast.walk(d_):
                        if hasattr(n, 'lineno'):
                            n._kfv_mod = h_.module      # type: ignore[attr-defined]
                    c_.args[0] = ast.copy_location(ast.Name(id=name_, ctx=ast.Load()), ref)
                    blk.insert(k - 1, d_)
                    ast.fix_missing_locations(d_)
                    k += 1
                    log.append(f'{caller.short}: callback {h_.short} passed by reference spelled as the nested function {name_}')
    # closures of new helpers: `def inner(): return e` (no parameters, an expression body, only ever called) is e
    for h in new.values():
        if _expand_closures(h.node):
            log.append(f'{h.short}: parameterless nested helper(s) replaced by their expression')
    # likewise new parameterless closures inside inventory functions (at any nesting depth)
    for q_, f_ in list(funcs.items()):
        if q_ in known or f_.qualname in new:
            for sub in [n for n in ast.walk(f_.node) if isinstance(n, (ast.FunctionDef, ast.AsyncFunctionDef))]:
                qs = q_ if sub is f_.node else None
                if qs is None:
                    # qualified name of a nested function: path of enclosing defs
                    path = _nested_path(f_.node, sub)
                    qs = q_ + ''.join(f'.<locals>.{nm}' for nm in path) if path is not None else None
                if qs is not None and _expand_closures(sub, (qs, known)):
                    log.append(f'{f_.short}: new parameterless closure(s) of {sub.name} spliced at their call sites')
                    touched_pre[q_] = f_
    counter = 0
    touched: dict[str, object] = {k_: v_ for k_, v_ in touched_pre.items() if getattr(v_, 'parent', None) is None}
    for caller in list(funcs.values()):
        if caller.qualname in new and False:
            continue
        changed = True
        rounds = 0
        while changed and rounds < 4:
            changed = False
            rounds += 1
            for blk_owner in ast.walk(caller.node):
                for fld in ('body', 'orelse', 'finalbody'):
                    blk = getattr(blk_owner, fld, None)
                    if not isinstance(blk, list) or not blk or not isinstance(blk[0], ast.stmt):
                        continue
                    if isinstance(blk_owner, (ast.FunctionDef, ast.AsyncFunctionDef, ast.Lambda, ast.ClassDef)) and blk_owner is not caller.node:
                        continue
                    i = 0
                    budget = 64
                    while i < len(blk):
                        st = blk[i]
                        # --- S / A shapes
                        call = None
                        target = None
                        if isinstance(st, ast.Expr) and isinstance(st.value, ast.Call):
                            call = st.value
                        elif isinstance(st, ast.Assign) and len(st.targets) == 1 and isinstance(st.value, ast.Call):
                            call, target = st.value, st.targets[0]
                        elif isinstance(st, ast.AnnAssign) and isinstance(st.value, ast.Call):
                            call, target = st.value, st.target
                        done = False
                        # --- a statement helper called in receiver position (`helper(...).m(x)`): it is what the statement
                        # evaluates first, so it can be bound to a fresh local on the line before
                        if isinstance(st, (ast.Assign, ast.Expr, ast.Return, ast.AnnAssign, ast.AugAssign)) and getattr(st, 'value', None) is not None:
                            par_, fld_, cur_ = st, 'value', st.value
                            while True:
                                if isinstance(cur_, ast.Call):
                                    r0 = resolve(caller, cur_) if cur_ is not st.value else None
                                    if r0 and r0[0] is not caller and _as_expr(_body(r0[0].node)) is None and _tail_returns_only(_body(r0[0].node)):
                                        counter += 1
                                        tmpn = f'{r0[0].name.lstrip("_")}__v{counter}'
                                        setattr(par_, fld_, ast.copy_location(ast.Name(id=tmpn, ctx=ast.Load()), cur_))
                                        blk.insert(i, ast.copy_location(ast.Assign(targets=[ast.copy_location(ast.Name(id=tmpn, ctx=ast.Store()), cur_)], value=cur_, lineno=st.lineno), st))
                                        ast.fix_missing_locations(blk[i])
                                        st = blk[i]
                                        call, target = st.value, st.targets[0]
                                        break
                                    par_, fld_, cur_ = cur_, 'func', cur_.func
                                elif isinstance(cur_, (ast.Attribute, ast.Subscript)):
                                    par_, fld_, cur_ = cur_, 'value', cur_.value
                                elif isinstance(cur_, (ast.BinOp, ast.Compare)):
                                    par_, fld_, cur_ = cur_, 'left', cur_.left
                                else:
                                    break
                        # --- `for t in helper(...):` over a statement helper that returns a collection: bind it first
                        if isinstance(st, ast.For) and isinstance(st.iter, ast.Call):
                            r0 = resolve(caller, st.iter)
                            if r0 and r0[0] is not caller and not _single_yield(_body(r0[0].node)) and _as_expr(_body(r0[0].node)) is None \
                                    and _tail_returns_only(_body(r0[0].node)) and not any(isinstance(n, (ast.Yield, ast.YieldFrom)) for x in _body(r0[0].node) for n in ast.walk(x)):
                                counter += 1
                                tmpn = f'{r0[0].name.lstrip("_")}__v{counter}'
                                asg = ast.copy_location(ast.Assign(targets=[ast.copy_location(ast.Name(id=tmpn, ctx=ast.Store()), st.iter)], value=st.iter, lineno=st.lineno), st)
                                st.iter = ast.copy_location(ast.Name(id=tmpn, ctx=ast.Load()), st.iter)
                                blk.insert(i, asg)
                                ast.fix_missing_locations(asg)
                                st = blk[i]
                                call, target = st.value, st.targets[0]
                        # --- G shape: `for t in helper(...): BODY` over a new generator with a single `yield e`:
                        # the generator's code with BODY (after `t = e`) in place of the yield
                        if isinstance(st, (ast.For,)) and isinstance(st.iter, ast.Call) and not st.orelse and not _jumps(st.body):
                            r = resolve(caller, st.iter)
                            if r and r[0] is not caller and _single_yield(_body(r[0].node)):
                                h, is_m, recv = r
                                counter += 1
                                # the generator's locals that are yielded take the names of the loop targets when those are
                                # dead outside the loop (otherwise they are copied at the yield point)
                                force = {}
                                yv = [n.value for x in _body(h.node) for n in ast.walk(x) if isinstance(n, ast.Yield)][0]
                                ys = [yv] if isinstance(yv, ast.Name) else (list(yv.elts) if isinstance(yv, ast.Tuple) else [])
                                ts = [st.target] if isinstance(st.target, ast.Name) else (list(st.target.elts) if isinstance(st.target, ast.Tuple) else [])
                                if ys and len(ys) == len(ts) and all(isinstance(x, ast.Name) for x in ys + ts) and len({x.id for x in ys}) == len(ys):
                                    inside = {id(x) for x in ast.walk(st)}
                                    # occurrences bound by a comprehension of their own are a different variable
                                    for comp in [c for c in ast.walk(caller.node) if isinstance(c, (ast.ListComp, ast.SetComp, ast.DictComp, ast.GeneratorExp))]:
                                        bound = {x.id for g in comp.generators for x in ast.walk(g.target) if isinstance(x, ast.Name)}
                                        inside |= {id(x) for x in ast.walk(comp) if isinstance(x, ast.Name) and x.id in bound}
                                    helper_names = {x.id for y in _body(h.node) for x in ast.walk(y) if isinstance(x, ast.Name)} | {a.arg for a in h.node.args.args + h.node.args.kwonlyargs}
                                    ok_t = all(not any(isinstance(x, ast.Name) and x.id == t.id and id(x) not in inside for x in ast.walk(caller.node)) for t in ts)
                                    ok_h = all(t.id == y.id or t.id not in helper_names for y, t in zip(ys, ts))
                                    if ok_t and ok_h:
                                        force = {y.id: t.id for y, t in zip(ys, ts)}
                                inst = instantiate(caller, h, st.iter, is_m, recv, counter, None, force)
                                if inst is not None:
                                    pre, nb = inst
                                    if _splice_at_yield(nb, st.target, st.body):
                                        blk[i:i + 1] = pre + nb
                                        touched[caller.qualname] = caller
                                        log.append(f'{caller.short}: loop over new generator {h.short} replaced by the generator\'s own loop')
                                        changed = True
                                        done = True
                        # --- R shape: `return helper(...)`: the helper's returns become the caller's returns
                        if isinstance(st, ast.Return) and isinstance(st.value, ast.Call):
                            r = resolve(caller, st.value)
                            if r and r[0] is not caller and _as_expr(_body(r[0].node)) is None:
                                h, is_m, recv = r
                                counter += 1
                                inst = instantiate(caller, h, st.value, is_m, recv, counter)
                                if inst is not None:
                                    pre, nb = inst
                                    if not (nb and isinstance(nb[-1], (ast.Return, ast.Raise))):
                                        nb = nb + [ast.copy_location(ast.Return(value=ast.copy_location(ast.Constant(value=None), st)), st)]
                                    blk[i:i + 1] = pre + nb
                                    touched[caller.qualname] = caller
                                    log.append(f'{caller.short}: expanded returned call of new helper {h.short}')
                                    changed = True
                                    done = True
                        if call is not None and not done:
                            r = resolve(caller, call)
                            if r and r[0] is not caller:
                                h, is_m, recv = r
                                body = _body(h.node)
                                single = _as_expr(body) is not None
                                if not single and (not _has_return_value(body) if target is None else _tail_returns_only(body)) and _tail_returns_only(body):
                                    counter += 1
                                    inst = instantiate(caller, h, call, is_m, recv, counter, target)
                                    if inst is not None:
                                        pre, nb = inst
                                        nb = _rewrite_returns(nb, target)
                                        blk[i:i + 1] = pre + nb
                                        touched[caller.qualname] = caller
                                        log.append(f'{caller.short}: expanded statement call of new helper {h.short}')
                                        changed = True
                                        done = True
                                elif not single and target is not None and not _tail_returns_only(body):
                                    # --- L shape: a search loop over a table that is a parameter (`for k, v in table: if key == k:
                                    # return v` ... `raise`): with the argument in place the table is a constant, the loop unrolls
                                    # and every return becomes a tail return
                                    counter += 1
                                    inst = instantiate(caller, h, call, is_m, recv, counter, target)
                                    if inst is not None:
                                        pre, nb = inst
                                        from kfv import normalize as _nz
                                        consts_ = {}
                                        for mod_ in {h.module, caller.module}:
                                            consts_.update(_nz._module_consts(prog.modules[mod_].tree))      # type: ignore[attr-defined]
                                        tmpf = ast.FunctionDef(name='_kfv_tmp', args=ast.arguments(posonlyargs=[], args=[], kwonlyargs=[], kw_defaults=[], defaults=[]),
                                                               body=nb, decorator_list=[], returns=None, type_comment=None, lineno=st.lineno, col_offset=0)
                                        lg_: list[str] = []
                                        try:
                                            _nz._unroll(tmpf, consts_, lg_)
                                        except Exception:  # noqa: BLE001
                                            lg_ = []
                                        nb2 = _renest(tmpf.body)
                                        if lg_ and _tail_returns_only(nb2) and not (target is None and _has_return_value(nb2)):
                                            nb2 = _rewrite_returns(nb2, target)
                                            blk[i:i + 1] = pre + nb2
                                            for x_ in pre + nb2:
                                                ast.fix_missing_locations(x_)
                                            touched[caller.qualname] = caller
                                            log.append(f'{caller.short}: expanded table search of new helper {h.short} (loop over the constant table unrolled)')
                                            changed = True
                                            done = True
                        if not done and isinstance(st, (ast.Return, ast.Assign, ast.Expr, ast.AnnAssign)):
                            # --- F shape: a factory `def helper(p...): def g(q...): ...; return g` called inside the statement:
                            # g, with the factory's arguments in place of its parameters, becomes a nested function of the caller
                            for sub in list(ast.walk(st)):
                                if not isinstance(sub, ast.Call):
                                    continue
                                r = resolve(caller, sub)
                                if not r or r[0] is caller:
                                    continue
                                h, is_m, recv = r
                                hb = [x for x in h.node.body if not (isinstance(x, ast.Expr) and isinstance(x.value, ast.Constant))]
                                if not (len(hb) == 2 and isinstance(hb[0], ast.FunctionDef) and not hb[0].decorator_list and isinstance(hb[1], ast.Return)
                                        and isinstance(hb[1].value, ast.Name) and hb[1].value.id == hb[0].name):
                                    continue
                                b = _bind(sub, h.node, is_m, recv)
                                if b is None or not all(_simple(v_) for v_ in b.values()):
                                    continue
                                # the factory binds its arguments when it is called, the nested function reads the caller's
                                # variables when it runs: the same only if those variables are not re-bound afterwards
                                argn = {x.id for v_ in b.values() for x in ast.walk(v_) if isinstance(x, ast.Name)} - {'self'}
                                later = blk[i + 1:]
                                in_loop = any(isinstance(o_, (ast.For, ast.While)) and any(y is st for y in ast.walk(o_)) for o_ in ast.walk(caller.node))
                                if in_loop or any(isinstance(x, ast.Name) and x.id in argn and isinstance(x.ctx, (ast.Store, ast.Del)) for y in later for x in ast.walk(y)):
                                    continue
                                g = hb[0]
                                gparams = {x.arg for x in g.args.posonlyargs + g.args.args + g.args.kwonlyargs}
                                if gparams & set(b) or any(isinstance(n, ast.Name) and n.id in b and isinstance(n.ctx, ast.Store) for n in ast.walk(g)):
                                    continue
                                names_here = {n.id for n in ast.walk(caller.node) if isinstance(n, ast.Name)} | {n.name for n in ast.walk(caller.node) if isinstance(n, ast.FunctionDef) and n is not caller.node}
                                counter += 1
                                gname = g.name if g.name not in names_here else f'{g.name}__{h.name.lstrip("_")}{counter}'
                                gcopy = _Subst(b, {}, h.module, sub).visit(copy.deepcopy(g))
                                gcopy.name = gname
                                ast.copy_location(gcopy, st)
                                _replace_child(st, sub, ast.copy_location(ast.Name(id=gname, ctx=ast.Load()), sub))
                                blk.insert(i, gcopy)
                                ast.fix_missing_locations(gcopy)
                                touched[caller.qualname] = caller
                                log.append(f'{caller.short}: factory {h.short} replaced by the nested function {gname} it returns')
                                changed = True
                                done = True
                                i += 1
                                break
                        if not done:
                            # --- E shape anywhere inside the statement (not inside nested defs)
                            here = False
                            for sub in list(ast.walk(st)):
                                if not isinstance(sub, ast.Call):
                                    continue
                                r = resolve(caller, sub)
                                if not r or r[0] is caller:
                                    continue
                                h, is_m, recv = r
                                body = _body(h.node)
                                hexpr = _as_expr(body)
                                if hexpr is not None:
                                    b = _bind(sub, h.node, is_m, recv)
                                    if b is None:
                                        continue
                                    # an argument that is not a plain name / attribute and is used more than once in the
                                    # helper's expression is evaluated once, into a fresh local, before the statement
                                    pre_st: list[ast.stmt] = []
                                    for p_, v_ in list(b.items()):
                                        if not _simple(v_) and _count_uses(hexpr, p_) > 1:
                                            counter += 1
                                            tmpn = f'{p_}__{h.name}{counter}'
                                            pre_st.append(ast.copy_location(ast.Assign(targets=[ast.Name(id=tmpn, ctx=ast.Store())], value=v_, lineno=st.lineno), st))
                                            b[p_] = ast.copy_location(ast.Name(id=tmpn, ctx=ast.Load()), v_)
                                    if pre_st and not isinstance(st, (ast.Assign, ast.AugAssign, ast.AnnAssign, ast.Expr, ast.Return, ast.If, ast.Assert)):
                                        continue
                                    expr = _Subst(b, {}, h.module, sub).visit(copy.deepcopy(hexpr))
                                    if pre_st:
                                        for ps_ in pre_st:
                                            ast.fix_missing_locations(ps_)
                                        blk[i:i] = pre_st
                                        i += len(pre_st)
                                    ast.fix_missing_locations(expr)
                                    _replace_child(st, sub, expr)
                                    touched[caller.qualname] = caller
                                    log.append(f'{caller.short}: expanded expression call of new helper {h.short}')
                                    changed = True
                                    here = True
                                    break
                            if here:
                                # re-examine the same statement (there may be more calls)
                                budget -= 1
                                if budget > 0:
                                    continue
                            i += 1
                            continue
                        # S/A expansion: the spliced statements are examined next (nested helpers)
                        budget -= 1
                        if budget <= 0:
                            i += 1
    if log:
        from kfv import localnames
        from kfv import normalize
        for caller in touched.values():
            keep_ = {k[0] for k in localnames.table().get(caller.qualname, [])}
            try:
                # spliced locals first get their inventory names back, so that folding does not substitute them away
                localnames.restore_function(caller.qualname, caller.node, log)
            except Exception as e:  # noqa: BLE001
                log.append(f'{caller.short}: name restoration after expansion skipped ({type(e).__name__}: {e})')
            try:
                # a table that a helper returned (or a parameter that became a constant table) can be unrolled now
                normalize._unroll(caller.node, normalize._module_consts(prog.modules[caller.module].tree), log)      # type: ignore[attr-defined]
            except Exception as e:  # noqa: BLE001
                log.append(f'{caller.short}: unrolling after expansion skipped ({type(e).__name__}: {e})')
            normalize._fold(caller.node, keep_)      # constants substituted for parameters: getattr(o, f'_{k}') etc. fold now
            try:
                # the spliced code comes from functions outside the inventory: give it the inventory spelling of the
                # caller (comparison orientation, if/else polarity, argument style) like the rest of the caller
                localnames.table()
                localnames.restore_function(caller.qualname, caller.node, log)
                normalize.copy_prop_function(caller.node, keep_)
                normalize._drop_else(caller.node)
            except Exception as e:  # noqa: BLE001
                log.append(f'{caller.short}: re-canonicalisation after expansion skipped ({type(e).__name__}: {e})')
            renumber(caller.node)
        # helpers that are no longer referenced anywhere were absorbed by their callers: the rules see them there,
        # not as free-standing functions full of parameters (`getattr(self, name)`)
        names_used: dict[str, int] = {}
        for q, f in funcs.items():
            for n in ast.walk(f.node):
                if q in new and n is f.node:
                    continue
                if isinstance(n, ast.Name) and n.id in by_name:
                    names_used[n.id] = names_used.get(n.id, 0) + (0 if _inside(n, new, f) else 1)
                elif isinstance(n, ast.Attribute) and n.attr in by_name:
                    names_used[n.attr] = names_used.get(n.attr, 0) + (0 if _inside(n, new, f) else 1)
        absorbed = [h for nm, hs in by_name.items() if not names_used.get(nm) for h in hs]
        for h in absorbed:
            funcs.pop(h.qualname, None)
            prog._func_of_node.pop(id(h.node), None)  # type: ignore[attr-defined]
            if h.cls and h.cls in prog.classes:  # type: ignore[attr-defined]
                c = prog.classes[h.cls]  # type: ignore[attr-defined]
                for tab in (c.methods, c.getters, c.setters):
                    if tab.get(h.name) is h:
                        del tab[h.name]
            for q2 in [q2 for q2, f2 in funcs.items() if f2.parent is h]:
                funcs.pop(q2, None)
            log.append(f'{h.short}: new helper absorbed by its callers')
        prog.absorbed = [h.short for h in absorbed]  # type: ignore[attr-defined]
        prog.reindex()  # type: ignore[attr-defined]
    return sorted(set(log))


def _inside(n: ast.AST, new: dict, f: object) -> bool:
    """References from inside a new helper do not keep another new helper alive unless that helper itself survives;
    approximated: references located in new helpers are ignored."""
    return getattr(f, 'qualname', None) in new


def renumber(fn: ast.AST) -> None:
    """Give the statements of an expanded function consistent, increasing line numbers (ordering rules compare
    positions).  The position used for type lookups is kept in `_kfv_pos`, the line to report in `_kfv_line`."""
    counter = [fn.lineno + 1]  # type: ignore[attr-defined]

    def header_nodes(st: ast.stmt):  # noqa: ANN202
        stack = []
        for fld, val in ast.iter_fields(st):
            if fld in ('body', 'orelse', 'finalbody', 'handlers') and isinstance(val, list) and val and isinstance(val[0], (ast.stmt, ast.ExceptHandler)):
                continue
            if isinstance(val, ast.AST):
                stack.append(val)
            elif isinstance(val, list):
                stack.extend(x for x in val if isinstance(x, ast.AST))
        yield st
        while stack:
            n = stack.pop()
            yield n
            stack.extend(ast.iter_child_nodes(n))

    def block(stmts: list) -> None:
        for st in stmts:
            if isinstance(st, ast.ExceptHandler):
                nodes = [st] + ([n for n in ast.walk(st.type)] if st.type else [])
            else:
                nodes = list(header_nodes(st))
            old0 = st.lineno
            span = 0
            for n in nodes:
                if not hasattr(n, 'lineno'):
                    continue
                if not hasattr(n, '_kfv_pos'):
                    n._kfv_pos = (n.lineno, n.col_offset, getattr(n, 'end_lineno', None), getattr(n, 'end_col_offset', None))  # type: ignore[attr-defined]
                if not hasattr(n, '_kfv_line'):
                    n._kfv_line = n.lineno  # type: ignore[attr-defined]
                rel = max(0, n.lineno - old0)
                erel = max(rel, (getattr(n, 'end_lineno', None) or n.lineno) - old0) if n is not st else rel
                n.lineno = counter[0] + rel
                n.end_lineno = counter[0] + erel
                span = max(span, erel)
            counter[0] += span + 1
            if isinstance(st, (ast.FunctionDef, ast.AsyncFunctionDef, ast.ClassDef)):
                # nested definitions keep their internal numbering relative to their header
                shift = st.lineno - old0
                for n in ast.walk(st):
                    if n is st or not hasattr(n, 'lineno') or n in nodes:
                        continue
                    if not hasattr(n, '_kfv_pos'):
                        n._kfv_pos = (n.lineno, n.col_offset, getattr(n, 'end_lineno', None), getattr(n, 'end_col_offset', None))  # type: ignore[attr-defined]
                    if not hasattr(n, '_kfv_line'):
                        n._kfv_line = n.lineno  # type: ignore[attr-defined]
                    n.lineno += shift
                    if getattr(n, 'end_lineno', None) is not None:
                        n.end_lineno += shift
                counter[0] = max(counter[0], max((getattr(n, 'end_lineno', 0) or 0) for n in ast.walk(st)) + 1)
                st.end_lineno = counter[0] - 1
                continue
            for fld in ('body', 'orelse', 'handlers', 'finalbody'):
                sub = getattr(st, fld, None)
                if isinstance(sub, list) and sub and isinstance(sub[0], (ast.stmt, ast.ExceptHandler)):
                    block(sub)
            st.end_lineno = max(getattr(st, 'end_lineno', 0) or 0, counter[0] - 1)
    block(fn.body)  # type: ignore[attr-defined]
    fn.end_lineno = counter[0]  # type: ignore[attr-defined]


def _has_return_value(stmts: list[ast.stmt]) -> bool:
    for st in stmts:
        for n in ast.walk(st):
            if isinstance(n, ast.Return) and n.value is not None:
                return True
    return False


def _count_uses(e: ast.expr, name: str) -> int:
    return sum(1 for n in ast.walk(e) if isinstance(n, ast.Name) and n.id == name)


def _rewrite_returns(stmts: list[ast.stmt], target: ast.expr | None) -> list[ast.stmt]:
    out: list[ast.stmt] = []
    for st in stmts:
        if isinstance(st, ast.Return):
            if st.value is not None and target is not None:
                t = copy.deepcopy(target)
                out.append(ast.fix_missing_locations(ast.copy_location(ast.Assign(targets=[t], value=st.value), st)))
            continue
        if isinstance(st, ast.If):
            st.body = _rewrite_returns(st.body, target) or [ast.copy_location(ast.Pass(), st)]
            st.orelse = _rewrite_returns(st.orelse, target)
        out.append(st)
    return out


def _drop_self_returns(stmts: list[ast.stmt], target: ast.expr) -> list[ast.stmt]:
    """After aliasing, `return <target>` carries no assignment: drop it (tail position only)."""
    tt = ast.unparse(target)
    out: list[ast.stmt] = []
    for st in stmts:
        if isinstance(st, ast.Return) and st.value is not None and ast.unparse(st.value) == tt:
            continue
        if isinstance(st, ast.If):
            st.body = _drop_self_returns(st.body, target) or [ast.copy_location(ast.Pass(), st)]
            st.orelse = _drop_self_returns(st.orelse, target)
        out.append(st)
    return out


def _replace_child(root: ast.AST, old: ast.AST, new: ast.AST) -> None:
    for parent in ast.walk(root):
        for fld, val in ast.iter_fields(parent):
            if val is old:
                setattr(parent, fld, new)
                return
            if isinstance(val, list):
                for k, x in enumerate(val):
                    if x is old:
                        val[k] = new
                        return
