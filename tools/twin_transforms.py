#!/venv/bin/python
"""Systematic behaviour-preserving rewrites of the whole package (twins by construction).

usage: twin_transforms.py <src kfac dir> <dst kfac dir> <mode>[,<mode>...]
modes:
  invert-if    `if c: A else: B`  (no elif)            -> `if not c: B else: A`
  flip-eq      `a == b` / `a != b` with call-free sides -> `b == a` / `b != a`
  else-return  `if c: ...return/raise/continue else: B` -> `if c: ...;  B`   (drop the redundant else)
  add-else     `if c: ...return;  B` at the end of a block -> `if c: ...return else: B`
  kw-format    `'..{}..'.format(a)`                      -> f-string   (simple positional cases)
  extract-var  `x = f(g(a), b)` (first argument a call)  -> `tmp = g(a); x = f(tmp, b)`
  inline-var   `v = e` directly followed by the only use of v -> e substituted
  expand-aug   `x op= e` -> `x = x op e`  (every augmented assignment of this package is on Python numbers)
  add-logging  a debug log call inserted at the start of every function and before every return
  comp-to-loop `x = [e for t in it if c]` / `{k: v for ...}` (one generator) -> empty container + explicit loop
  swap-adjacent  two adjacent, independent, call-free simple assignments exchanged
  to-keyword   positional arguments of calls to package functions with a unique name -> keyword arguments
  to-positional  keyword arguments (leading positional-or-keyword parameters, in order) -> positional
The output is produced with ast.unparse (comments are lost, which no check reads).
"""
from __future__ import annotations

import ast
import os
import shutil
import sys


SIGS: dict[str, list[str]] = {}


def _callfree(e: ast.AST) -> bool:
    return not any(isinstance(n, (ast.Call, ast.Await, ast.Yield, ast.YieldFrom, ast.NamedExpr)) for n in ast.walk(e))


def _terminal(block: list[ast.stmt]) -> bool:
    return bool(block) and isinstance(block[-1], (ast.Return, ast.Raise, ast.Continue, ast.Break))


def _neg(t: ast.expr) -> ast.expr:
    if isinstance(t, ast.UnaryOp) and isinstance(t.op, ast.Not):
        return t.operand
    if isinstance(t, ast.Compare) and len(t.ops) == 1:
        flip = {ast.Eq: ast.NotEq, ast.NotEq: ast.Eq, ast.Is: ast.IsNot, ast.IsNot: ast.Is, ast.In: ast.NotIn, ast.NotIn: ast.In}
        # ordering comparisons are not negated by flipping (NaN): use `not`
        if type(t.ops[0]) in flip:
            return ast.copy_location(ast.Compare(left=t.left, ops=[flip[type(t.ops[0])]()], comparators=t.comparators), t)
    return ast.copy_location(ast.UnaryOp(op=ast.Not(), operand=t), t)


class T(ast.NodeTransformer):
    def __init__(self, modes: set[str]) -> None:
        self.modes = modes
        self.count = 0

    def visit_If(self, n: ast.If) -> ast.AST:  # noqa: N802
        self.generic_visit(n)
        if 'invert-if' in self.modes and n.orelse and not (len(n.orelse) == 1 and isinstance(n.orelse[0], ast.If)):
            self.count += 1
            return ast.copy_location(ast.If(test=_neg(n.test), body=n.orelse, orelse=n.body), n)
        return n

    def visit_AugAssign(self, n: ast.AugAssign) -> ast.AST:  # noqa: N802
        self.generic_visit(n)
        if 'expand-aug' in self.modes and _callfree(n.target):
            import copy
            left = copy.deepcopy(n.target)
            for x in ast.walk(left):
                if hasattr(x, 'ctx'):
                    x.ctx = ast.Load()
            self.count += 1
            return ast.copy_location(ast.Assign(targets=[n.target], value=ast.BinOp(left=left, op=n.op, right=n.value), lineno=n.lineno), n)
        return n

    def visit_Compare(self, n: ast.Compare) -> ast.AST:  # noqa: N802
        self.generic_visit(n)
        if 'flip-eq' in self.modes and len(n.ops) == 1 and isinstance(n.ops[0], (ast.Eq, ast.NotEq)) and _callfree(n.left) and _callfree(n.comparators[0]):
            self.count += 1
            return ast.copy_location(ast.Compare(left=n.comparators[0], ops=n.ops, comparators=[n.left]), n)
        return n

    def _blocks(self, node: ast.AST) -> None:
        for fld in ('body', 'orelse', 'finalbody'):
            blk = getattr(node, fld, None)
            if not (isinstance(blk, list) and blk and isinstance(blk[0], ast.stmt)):
                continue
            if 'else-return' in self.modes:
                out: list[ast.stmt] = []
                for st in blk:
                    if isinstance(st, ast.If) and st.orelse and _terminal(st.body) and not (len(st.orelse) == 1 and isinstance(st.orelse[0], ast.If)):
                        self.count += 1
                        tail = st.orelse
                        st.orelse = []
                        out.append(st)
                        out.extend(tail)
                    else:
                        out.append(st)
                blk[:] = out
            if 'add-else' in self.modes and len(blk) >= 2:
                for i, st in enumerate(blk[:-1]):
                    if isinstance(st, ast.If) and not st.orelse and _terminal(st.body) and isinstance(node, (ast.FunctionDef, ast.AsyncFunctionDef)) and i >= 1:
                        # only when the rest of the block is short: keeps the result readable
                        rest = blk[i + 1:]
                        if 0 < len(rest) <= 3 and not any(isinstance(x, (ast.FunctionDef, ast.ClassDef)) for x in rest):
                            self.count += 1
                            st.orelse = rest
                            del blk[i + 1:]
                            break

    def generic_visit(self, node: ast.AST) -> ast.AST:
        node = super().generic_visit(node)
        if isinstance(node, (ast.FunctionDef, ast.AsyncFunctionDef, ast.For, ast.While, ast.If, ast.With, ast.Try)):
            self._blocks(node)
        return node

    def visit_FunctionDef(self, n):  # noqa: ANN001, ANN201, N802
        return self.generic_visit(n)

    def visit_Call(self, n: ast.Call) -> ast.AST:  # noqa: N802
        self.generic_visit(n)
        if 'kw-format' in self.modes and isinstance(n.func, ast.Attribute) and n.func.attr == 'format' and isinstance(n.func.value, ast.Constant) \
                and isinstance(n.func.value.value, str) and not n.keywords and n.args and n.func.value.value.count('{}') == len(n.args) \
                and '{' not in n.func.value.value.replace('{}', ''):
            parts = n.func.value.value.split('{}')
            vals: list[ast.expr] = []
            for i, ptxt in enumerate(parts):
                if ptxt:
                    vals.append(ast.Constant(value=ptxt))
                if i < len(n.args):
                    vals.append(ast.FormattedValue(value=n.args[i], conversion=-1, format_spec=None))
            self.count += 1
            return ast.copy_location(ast.JoinedStr(values=vals), n)
        return n


def _uses(node: ast.AST, name: str) -> list[ast.Name]:
    return [n for n in ast.walk(node) if isinstance(n, ast.Name) and n.id == name]


class _Repl(ast.NodeTransformer):
    def __init__(self, name: str, val: ast.expr) -> None:
        self.name, self.val = name, val

    def visit_Name(self, n: ast.Name) -> ast.AST:  # noqa: N802
        return self.val if n.id == self.name and isinstance(n.ctx, ast.Load) else n


def _names(e: ast.AST, ctx: type) -> set[str]:
    return {n.id for n in ast.walk(e) if isinstance(n, ast.Name) and isinstance(n.ctx, ctx)}


def block_rewrites(fn: ast.AST, modes: set[str]) -> int:
    count = 0
    k = 0
    if 'comp-to-loop' in modes or 'swap-adjacent' in modes:
        for node in ast.walk(fn):
            for fld in ('body', 'orelse', 'finalbody'):
                blk = getattr(node, fld, None)
                if not (isinstance(blk, list) and blk and isinstance(blk[0], ast.stmt)):
                    continue
                if 'comp-to-loop' in modes:
                    i = 0
                    while i < len(blk):
                        st = blk[i]
                        v = st.value if isinstance(st, ast.Assign) and len(st.targets) == 1 and isinstance(st.targets[0], ast.Name) else None
                        if isinstance(v, (ast.ListComp, ast.DictComp)) and len(v.generators) == 1 and not v.generators[0].is_async \
                                and st.targets[0].id not in _names(v, ast.Load):
                            g = v.generators[0]
                            tgt = st.targets[0].id
                            if isinstance(v, ast.ListComp):
                                init: ast.expr = ast.List(elts=[], ctx=ast.Load())
                                body: ast.stmt = ast.Expr(value=ast.Call(func=ast.Attribute(value=ast.Name(id=tgt, ctx=ast.Load()), attr='append', ctx=ast.Load()), args=[v.elt], keywords=[]))
                            else:
                                init = ast.Dict(keys=[], values=[])
                                body = ast.Assign(targets=[ast.Subscript(value=ast.Name(id=tgt, ctx=ast.Load()), slice=v.key, ctx=ast.Store())], value=v.value, lineno=st.lineno)
                            for c in reversed(g.ifs):
                                body = ast.If(test=c, body=[body], orelse=[])
                            loop = ast.For(target=g.target, iter=g.iter, body=[body], orelse=[], lineno=st.lineno)
                            blk[i:i + 1] = [ast.copy_location(ast.Assign(targets=[ast.Name(id=tgt, ctx=ast.Store())], value=init, lineno=st.lineno), st), ast.copy_location(loop, st)]
                            count += 1
                            i += 2
                            continue
                        i += 1
                if 'swap-adjacent' in modes:
                    i = 0
                    while i + 1 < len(blk):
                        a, b = blk[i], blk[i + 1]
                        ok = all(isinstance(x, ast.Assign) and len(x.targets) == 1 and isinstance(x.targets[0], (ast.Name, ast.Attribute)) and _callfree(x) for x in (a, b))
                        if ok:
                            ta, tb = ast.unparse(a.targets[0]), ast.unparse(b.targets[0])
                            ra, rb = ast.unparse(a.value), ast.unparse(b.value)
                            root = lambda t: t.split('.')[0]  # noqa: E731
                            indep = ta != tb and ta not in rb and tb not in ra and root(ta) not in (tb,) and root(tb) not in (ta,) \
                                and not (isinstance(a.targets[0], ast.Name) and a.targets[0].id in _names(b, ast.Load)) \
                                and not (isinstance(b.targets[0], ast.Name) and b.targets[0].id in _names(a, ast.Load))
                            if indep:
                                blk[i], blk[i + 1] = b, a
                                count += 1
                                i += 2
                                continue
                        i += 1
    for node in ast.walk(fn):
        for fld in ('body', 'orelse', 'finalbody'):
            blk = getattr(node, fld, None)
            if not (isinstance(blk, list) and blk and isinstance(blk[0], ast.stmt)):
                continue
            if 'extract-var' in modes:
                i = 0
                while i < len(blk):
                    st = blk[i]
                    call = st.value if isinstance(st, (ast.Assign, ast.Expr, ast.Return)) and isinstance(getattr(st, 'value', None), ast.Call) else None
                    if call is not None and call.args and isinstance(call.args[0], ast.Call) and _callfree(call.func) \
                            and isinstance(call.func, (ast.Name, ast.Attribute)) and not any(isinstance(x, ast.Starred) for x in call.args):
                        k += 1
                        tmp = f'tmp_{k}'
                        blk.insert(i, ast.copy_location(ast.Assign(targets=[ast.Name(id=tmp, ctx=ast.Store())], value=call.args[0], lineno=st.lineno), st))
                        call.args[0] = ast.copy_location(ast.Name(id=tmp, ctx=ast.Load()), call.args[0])
                        count += 1
                        i += 1
                    i += 1
            if 'inline-var' in modes:
                i = 0
                while i + 1 < len(blk):
                    st, nx = blk[i], blk[i + 1]
                    if isinstance(st, ast.Assign) and len(st.targets) == 1 and isinstance(st.targets[0], ast.Name) and not isinstance(nx, (ast.For, ast.While, ast.FunctionDef, ast.With, ast.Try, ast.If)):
                        v = st.targets[0].id
                        tot = [u for u in _uses(fn, v)]
                        here = [u for u in _uses(nx, v) if isinstance(u.ctx, ast.Load)]
                        # the only other occurrence in the function is the binding itself; the use is the first thing evaluated
                        if len(tot) == 2 and len(here) == 1 and not any(isinstance(x, (ast.Lambda, ast.ListComp, ast.GeneratorExp, ast.DictComp, ast.SetComp)) for x in ast.walk(nx)):
                            first = next((x for x in ast.walk(nx) if isinstance(x, (ast.Name, ast.Call, ast.Attribute)) and not isinstance(getattr(x, 'ctx', None), ast.Store)), None)
                            val = nx.value if isinstance(nx, (ast.Assign, ast.Expr, ast.Return, ast.AugAssign)) else None
                            ok = val is not None and (val is here[0] or (isinstance(val, ast.Call) and val.args and val.args[0] is here[0] and _callfree(val.func))
                                                      or (isinstance(val, ast.Attribute) and val.value is here[0])
                                                      or (isinstance(val, ast.Call) and isinstance(val.func, ast.Attribute) and val.func.value is here[0]))
                            if ok:
                                blk[i + 1] = _Repl(v, st.value).visit(nx)
                                del blk[i]
                                count += 1
                                continue
                    i += 1
    return count


def signatures(root: str) -> dict[str, list[str]]:
    """name -> positional-or-keyword parameter names (without self/cls) for package functions whose name is unique."""
    seen: dict[str, list[list[str]]] = {}
    for dirpath, _d, files in os.walk(root):
        for fn in files:
            if fn.endswith('.py'):
                tree = ast.parse(open(os.path.join(dirpath, fn)).read())
                for n in ast.walk(tree):
                    if isinstance(n, (ast.FunctionDef, ast.AsyncFunctionDef)):
                        if n.args.vararg or n.args.posonlyargs:
                            seen.setdefault(n.name, []).append(['*'])
                            continue
                        ps = [a.arg for a in n.args.args]
                        if ps[:1] in (['self'], ['cls']):
                            ps = ps[1:]
                        seen.setdefault(n.name, []).append(ps)
    return {k: v[0] for k, v in seen.items() if len(v) == 1 and v[0] != ['*'] and not k.startswith('__')}


class ArgStyle(ast.NodeTransformer):
    def __init__(self, sigs: dict[str, list[str]], mode: str) -> None:
        self.sigs, self.mode, self.count = sigs, mode, 0

    def visit_Call(self, n: ast.Call) -> ast.AST:  # noqa: N802
        self.generic_visit(n)
        name = n.func.attr if isinstance(n.func, ast.Attribute) else (n.func.id if isinstance(n.func, ast.Name) else None)
        if name not in self.sigs or any(isinstance(a, ast.Starred) for a in n.args) or any(k.arg is None for k in n.keywords):
            return n
        if isinstance(n.func, ast.Attribute) and isinstance(n.func.value, ast.Call) and ast.unparse(n.func.value.func) == 'super':
            return n
        ps = self.sigs[name]
        if self.mode == 'to-keyword' and n.args and len(n.args) <= len(ps) and not ({k.arg for k in n.keywords} & set(ps[:len(n.args)])):
            n.keywords = [ast.keyword(arg=ps[i], value=a) for i, a in enumerate(n.args)] + n.keywords
            n.args = []
            self.count += 1
        elif self.mode == 'to-positional' and n.keywords:
            k0 = len(n.args)
            moved = 0
            while n.keywords and k0 + moved < len(ps) and n.keywords[0].arg == ps[k0 + moved]:
                n.args.append(n.keywords.pop(0).value)
                moved += 1
            self.count += bool(moved)
        return n


def main() -> None:
    src, dst, modes = sys.argv[1], sys.argv[2], set(sys.argv[3].split(','))
    if os.path.exists(dst):
        shutil.rmtree(dst)
    shutil.copytree(src, dst)
    global SIGS
    SIGS = signatures(src) if modes & {'to-keyword', 'to-positional'} else {}
    total = 0
    for dirpath, _d, files in os.walk(dst):
        for fn in files:
            if fn.endswith('.py'):
                p = os.path.join(dirpath, fn)
                tree = ast.parse(open(p).read())
                t = T(modes)
                tree = t.visit(tree)
                for am in modes & {'to-keyword', 'to-positional'}:
                    at = ArgStyle(SIGS, am)
                    tree = at.visit(tree)
                    t.count += at.count
                if 'add-logging' in modes:
                    for fn_ in [n for n in ast.walk(tree) if isinstance(n, (ast.FunctionDef, ast.AsyncFunctionDef))]:
                        log = ast.parse(f"_tw_logging.getLogger(__name__).debug('enter {fn_.name}')").body[0]
                        k0 = 1 if fn_.body and isinstance(fn_.body[0], ast.Expr) and isinstance(fn_.body[0].value, ast.Constant) and isinstance(fn_.body[0].value.value, str) else 0
                        fn_.body.insert(k0, log)
                        t.count += 1
                    tree.body.insert(1 if tree.body and isinstance(tree.body[0], ast.Expr) else 0, ast.parse('import logging as _tw_logging').body[0])
                    # `from __future__` imports must stay first
                    fut = [x for x in tree.body if isinstance(x, ast.ImportFrom) and x.module == '__future__']
                    for x in fut:
                        tree.body.remove(x)
                    k1 = 1 if tree.body and isinstance(tree.body[0], ast.Expr) and isinstance(tree.body[0].value, ast.Constant) else 0
                    tree.body[k1:k1] = fut
                if modes & {'extract-var', 'inline-var', 'comp-to-loop', 'swap-adjacent'}:
                    for fn_ in [n for n in ast.walk(tree) if isinstance(n, (ast.FunctionDef, ast.AsyncFunctionDef))]:
                        t.count += block_rewrites(fn_, modes)
                ast.fix_missing_locations(tree)
                open(p, 'w').write(ast.unparse(tree) + '\n')
                total += t.count
    print(f'{total} rewrites ({sorted(modes)})')


if __name__ == '__main__':
    main()
