#!/venv/bin/python
"""Run EVERY check against each given patch (scratch copies); print only non-zero outcomes.
usage: patch_matrix.py <dir-with-patch.diff | file.diff> ..."""
from __future__ import annotations
import concurrent.futures as cf, glob, os, re, sys
sys.path.insert(0, os.path.dirname(os.path.abspath(__file__)))
import try_patch
props = sorted(os.path.basename(f)[:-3].upper() for f in glob.glob('/verif/kfv/rules/c[0-9][0-9].py'))
items = []
for a in sys.argv[1:]:
    pf = a if a.endswith('.diff') else os.path.join(a, 'patch.diff')
    if os.path.exists(pf) and os.path.getsize(pf) > 0:
        items.append(pf)
def one(pf):
    try:
        return pf, try_patch.run(pf, props)
    except Exception as e:  # noqa: BLE001
        return pf, {'ERR': (9, str(e)[:200])}
tot = bad = 0
with cf.ThreadPoolExecutor(max_workers=6) as ex:
    for pf, res in ex.map(one, items):
        hits = {p: (rc, sorted(set(re.findall(r'rule=(\S+)', out))), (out.strip().splitlines() or [''])[-1][:200] if rc == 2 else '') for p, (rc, out) in res.items() if rc != 0}
        tot += 1
        bad += bool(hits)
        print(('ALARM ' if hits else 'quiet ') + pf.replace('/patch.diff', ''), ' '.join(f'{p}:{rc}{rules}{(" <" + msg + ">") if msg else ""}' for p, (rc, rules, msg) in hits.items()))
print(f'{tot} patches, {bad} with a non-zero check')
