#!/venv/bin/python
"""Regenerate /verif/MANIFEST.json from the rule modules present (kfv/rules/cXX.py)."""
from __future__ import annotations

import importlib
import json
import os
import sys

ROOT = os.path.dirname(os.path.dirname(os.path.abspath(__file__)))
sys.path.insert(0, ROOT)
PY = '/venv/bin/python'

props = [json.loads(line) for line in open(os.path.join(ROOT, 'properties.jsonl'))]
checks = []
na = []
for p in props:
    pid = p['id']
    try:
        m = importlib.import_module(f'kfv.rules.{pid.lower()}')
    except ModuleNotFoundError:
        na.append({'property_id': pid, 'reason': 'no static check built yet for this property in the current state of /verif (planned rules: DESIGN.md section 3); nothing is claimed'})
        continue
    if getattr(m, 'NOT_APPLICABLE', None):
        na.append({'property_id': pid, 'reason': m.NOT_APPLICABLE})
        continue
    checks.append({
        'property_id': pid,
        'quick_cmd': f'{PY} /verif/check.py {pid} --tier quick',
        'thorough_cmd': f'{PY} /verif/check.py {pid} --tier thorough',
        'evidence_file': f'/verif/evidence/{pid}.json',
        'replay_cmd_template': f'{PY} /verif/check.py {pid} --replay {{path}}',
        'engine': 'kfv',
        'level_claimed': {
            'category': 'other',
            'text': m.LEVEL_TEXT if hasattr(m, 'LEVEL_TEXT') else (
                'Static analysis of /repo/kfac on every run (no execution of kfac-pytorch): ' + m.TECHNIQUE +
                '. Decides the structural clauses listed in DESIGN.md for this property on every path / every rank role '
                'at once; clauses about runtime values are declared not decided (see level_note).'),
            'design_ref': f'DESIGN.md section 4 ({pid})',
        },
        'level_note': 'Trusted base: assumptions A1-A6 of DESIGN.md section 3 (SPMD launch with equal arguments, user-supplied groups contain the rank, torch operator '
                      'semantics of the modelled vocabulary, exceptions abort the job, hash(int) process-independent, mypy receiver classes). '
                      'Decides structural necessary conditions only. NOT decided for this property: ' + getattr(m, 'NOT_DECIDED', 'runtime values') + '.',
        'technique': 'static analysis: ' + m.TECHNIQUE,
    })

manifest = {
    'version': 1,
    'setup_cmd': f'{PY} -c "import mypy, networkx, ast; import sys; sys.path.insert(0, \'/verif\'); import kfv.core, kfv.model, kfv.flow, kfv.spmd; print(\'kfv ok\')"',
    'hooks': {
        'guard': 'KFAC_VERIF (unused: the checks are static and need no instrumentation of the repository)',
        'enable': 'nothing to enable; checks parse /repo/kfac as it is',
        'baseline_off_cmd': 'cd /repo && /venv/bin/python -m pytest -ra -q -p no:cacheprovider --timeout=900 --continue-on-collection-errors',
        'source_commits': [],
        'add_only': True,
    },
    'engines': [{
        'name': 'kfv',
        'path': '/verif/kfv',
        'serves_properties': [c['property_id'] for c in checks],
        'kind_free_text': 'repository-specific static analyser: stdlib ast + mypy (library, type oracle) program model, '
                          'class-hierarchy call graph per preconditioner family, structured control dependence, '
                          'rank-label dataflow, typestate walker, term normal forms, abstract tensor types',
    }],
    'checks': checks,
    'not_applicable': na,
    'notes': 'All checks are static (family: static analysis); exit 2 = ANALYSIS-ERROR/INCOMPLETE (no verdict). '
             'Known findings: /verif/known_findings.json; genuine defects repaired by fix: commits in /repo are listed there as fixed.',
}
with open(os.path.join(ROOT, 'MANIFEST.json'), 'w') as fh:
    json.dump(manifest, fh, indent=1)
print(f'{len(checks)} checks, {len(na)} not_applicable')
