#!/venv/bin/python
"""Markdown table of the round-2 seeded changes: what each does and which rules of its own check report it.
usage: seed_table.py <selftest.json written by run_selftest.py --patches --json>"""
from __future__ import annotations

import json
import sys

SHORT = {
    'C01-r2-1': '`outer(dg,da)+damping` cached in a new slot, cleared only where this rank recomputes (stale on receivers; stale damping)',
    'C01-r2-2': 'eigenvector broadcasts passed `symmetric=` (symmetry_aware)',
    'C01-r2-3': 'step counter restored at the end of `load_state_dict` (callable damping)',
    'C02-r2-1': 'receive-buffer pool keyed by (shape, dtype, device) used for `broadcast_grad` (two layers of equal shape share storage)',
    'C02-r2-2': 'as C01-r2-2',
    'C02-r2-3': '`torch.matmul(..., out=grad)` writes into the formatted module gradient',
    'C03-r2-1': 'single-rank groups not created (None handed over) + inverse broadcast guard dropped',
    'C03-r2-2': '`memory_usage()` no longer flushes the buckets',
    'C03-r2-3': '"cast once": slot kept in inv_dtype, receivers allocate in grad dtype',
    'C04-r2-1': 'loss scale cached in a new field, invalidated only in `reset_batch`',
    'C04-r2-2': 'damping added in place to `factor.to(float32)` (aliases the f32 factor)',
    'C04-r2-3': 'identity by `torch.eye(n, device=…)` (default dtype, not the factor dtype)',
    'C05-r2-1': 'reciprocal of the damped eigenvalue product cached until `compute_g_inv`',
    'C05-r2-2': 'step counter restored last in `load_state_dict`',
    'C05-r2-3': 'mini-step reset moved from `step()` into the backward hook',
    'C06-r2-1': '`int()` after the tolerant integrality test',
    'C06-r2-2': '`local_rank=get_local_rank()` (LOCAL_RANK of the launcher) handed to the assignment',
    'C06-r2-3': 'layers iterated through `keys() - set` (hash order of str)',
    'C07-r2-1': 'receiver uses `module.get_grad()` itself as receive buffer',
    'C07-r2-2': '`state_dict.get(key)`; `None` values (kl_clip) not restored',
    'C07-r2-3': '`lr**2` cached at construction / load; scheduler writes `_lr` directly',
    'C08-r2-1': 'bucket key from group-local ranks (`.values()`)',
    'C08-r2-2': 'average flag moved onto the bucket (first tensor decides)',
    'C08-r2-3': '`add_tensor` upcasts half precision and never casts back',
    'C09-r2-1': 'step counter restored last',
    'C09-r2-2': 'running average updated in place (`mul_/add_`), aliases held state dicts',
    'C09-r2-3': 'scheduler made stateful (initial value × running scale)',
    'C10-r2-1': '`a /= spatial_size` on a view of the hook tensor (1 output channel)',
    'C10-r2-2': 'backward hook guarded by an "awaiting" set instead of `module.training`',
    'C10-r2-3': '`(aᵀa)/scale` (0/0 on an empty batch, fp16 overflow)',
    'C11-r2-1': 'replicated factor reduced over the passed group (world) instead of the stage peers',
    'C11-r2-2': 'cached zero chunks + in-place reduce_scatter into the cached chunk',
    'C11-r2-3': 'averaging helper defaults to the world size in the unbucketed path',
    'C12-r2-1': '`break` after the own stage in the `new_group` loop',
    'C12-r2-2': 'range test for sorted groups in `get_group_with_rank`',
    'C12-r2-3': 'fast path `return src_rank` in `src_grad_worker`',
    'C13-r2-1': '`memory_usage` counts only materialised tensors (ignores futures)',
    'C13-r2-2': 'broadcast early exit `<= 1` + membership guard dropped',
    'C13-r2-3': '`symmetry_aware` forwarded only for the INVERSE method',
    'C14-r2-1': 'diagonal halved on pack, `U + Uᵀ` on unpack (subnormals)',
    'C14-r2-2': 'only the source packs, detected with the group-local rank',
    'C14-r2-3': 'bucket overflow handled before the shape validation',
    'C15-r2-1': 'pointwise fast path behind a cached flag that ignores the stride',
    'C15-r2-2': 'tail zero-padding before unfold',
    'C15-r2-3': '`a_factor_shape` assumes a square kernel',
    'C16-r2-1': 'aliases of shared modules registered under a non-skipped alias',
    'C16-r2-2': 'class-name skip test on the lower-cased name',
    'C16-r2-3': 'exact-type dispatch table (subclasses dropped)',
    'C17-r2-1': 'running group-load table overwritten in the colocate branch',
    'C17-r2-2': 'float32 `torch.argmin` helper',
    'C17-r2-3': 'result memoised under a key without the costs',
    'C18-r2-1': 'gathered layers filtered to the local stage',
    'C18-r2-2': 'dirty flags skip the eigendecomposition; `load_state_dict` does not raise them',
    'C18-r2-3': 'directory load only on the inverse worker',
    'C19-r2-1': 'implicit step divided by accumulation_steps',
    'C19-r2-2': 'update intervals memoised per step; scheduler writes the fields directly',
    'C19-r2-3': 'closure remembers that the cap was reached',
    'C20-r2-1': 'window parameter clamped inside the loop (leaks to later functions)',
    'C20-r2-2': 'running totals survive `clear_trace`',
    'C20-r2-3': '`log_trace` truncates the histories',
}


SHORT3 = {'C01-r3-1': 'G eigenvalue clamp moved into the non-prediv branch', 'C01-r3-2': '`symmetric=` passed to the eigenvector broadcast', 'C01-r3-3': 'step counter restored last in `load_state_dict`', 'C02-r3-1': '`reduce_g_factor` de-indented out of the per-layer loop', 'C02-r3-2': 'as C01-r3-2', 'C02-r3-3': 'bucketed callback: refill, `elif average`', 'C03-r3-1': 'G-inverse broadcast rooted at the A inverse worker', 'C03-r3-2': 'inverse broadcast rooted at `src_grad_worker` after a load', 'C03-r3-3': 'stage group kept when `stage == local_rank`', 'C04-r3-1': '`F.pad` amounts in (H,H,W,W) order', 'C04-r3-2': 'G batch divided by `_a_count`', 'C04-r3-3': 'unbucketed average divides by the world size', 'C05-r3-1': 'step counter bumped before the clip scale is computed', 'C05-r3-2': 'backward hook gated on the inverse interval', 'C05-r3-3': 'as C04-r3-2', 'C06-r3-1': 'receiver groups (rows) handed to the greedy assignment', 'C06-r3-2': '`int()` for `round()` in the equal-groups check', 'C06-r3-3': '`is not` for `<` in `broadcast_gradients`', 'C07-r3-1': 'step counter bumped before `_compute_grad_scale`', 'C07-r3-2': '`.contiguous()` for `.clone()` before the bias broadcast', 'C07-r3-3': 'receiver uses `module.get_grad()` as receive buffer', 'C08-r3-1': 'lost negation in `group_ranks`', 'C08-r3-2': 'bucketed average divides by the world size', 'C08-r3-3': '`break` for `continue` in flush', 'C09-r3-1': 'step counter restored last', 'C09-r3-2': '`callable(self._damping)` guards the factor_decay entry', 'C09-r3-3': 'layer state returns the raw `_a_factor` slot', 'C10-r3-1': '`g /= spatial_size`', 'C10-r3-2': '`g /= self.grad_scaler()`', 'C10-r3-3': 'class-name skip test on the lower-cased name', 'C11-r3-1': 'bias broadcast issued on the un-preconditioned partition', 'C11-r3-2': 'replicated G reduced over the model-parallel group', 'C11-r3-3': 'bucketed average divides by the world size', 'C12-r3-1': '`new_group` moved under the own-stage test', 'C12-r3-2': 'DP group looked up for the local rank in `factor_worker`', 'C12-r3-3': '`{self.local_rank}` for the MP peers in `is_grad_worker`', 'C13-r3-1': 'A reduced over the receiver group in the forward hook', 'C13-r3-2': 'eigen layer drops `symmetry_aware` on the way to the base', 'C13-r3-3': '`g_factor.element_size()` in the inverse byte count', 'C14-r3-1': 'square check `>` for `!=` in broadcast', 'C14-r3-2': '`maximum(dst, dst.T)` for the mirror scatter', 'C14-r3-3': 'flat gather through `stride(0)`', 'C15-r3-1': 'padding guard `*` for `+`', 'C15-r3-2': 'spatial divisor `size(1)*size(1)`', 'C15-r3-3': '`a.view(-1, a.size(1))` in the linear helper', 'C16-r3-1': '`requires_grad(model)` for `requires_grad(module)`', 'C16-r3-2': '`type(module) in` for `isinstance`', 'C16-r3-3': 'as C10-r3-3', 'C17-r3-1': 'group load by `max` instead of `sum`', 'C17-r3-2': 'as C06-r3-1', 'C17-r3-3': 'GPT load table sized by the DP peers', 'C18-r3-1': '`layers is None` exit before the directory branch', 'C18-r3-2': 'directory load on the inverse worker only', 'C18-r3-3': 'directory save by `src_grad_worker`', 'C19-r3-1': 'inv_update_steps block guarded by the factor_update_steps lambda', 'C19-r3-2': '`elif` chains the lr refusal to the kl_clip one', 'C19-r3-3': 'cap rounded to two decimals', 'C20-r3-1': 'unguarded `times[len(times) - max_history:]`', 'C20-r3-2': '`setdefault(name, [t]).append(t)`', 'C20-r3-3': '`log_trace` drops `max_history`'}


SHORT4 = {'C01-r4-C011': '`pinv(..., hermitian=True)` for `linalg.inv` of the damped factor', 'C01-r4-C012': '`tensor.clone()` for `tensor.contiguous()` in `broadcast` (receiver never sees the data)', 'C02-r4-C023': '`symmetric=` passed to the eigenvector broadcast', 'C02-r4-C024': 'receiver uses `module.get_grad()` itself as receive buffer', 'C03-r4-C031': '`load_state_dict` iterates `keys() & keys()` (hash order of str) around collectives', 'C03-r4-C032': 'stage groups created by a generator consumed with `next(...)`', 'C04-r4-C041': 'reductions deferred into lambdas that capture the loop variable', 'C04-r4-C042': 'identity by `torch.eye(n, device=…)` (default dtype)', 'C05-r4-C051': '`interval *= int(factor)` for `int(interval * factor)` in the scheduler', 'C05-r4-C052': '`state_dict.get(key) or current` (a saved 0 / None is lost)', 'C06-r4-C061': 'layers to place taken from a set comprehension', 'C06-r4-C062': '`isclose(grad_workers - round(grad_workers), 0)` (relative tolerance against 0)', 'C07-r4-C071': 'clip sum accumulated as a 0-dim tensor in the gradient dtype', 'C07-r4-C072': '`scale = scale or 1.0`; multiply only when `!= 1.0`', 'C08-r4-C081': 'chained comparison `size <= cap < size + n` for the capacity test', 'C08-r4-C082': 'bucket tensors converted to the dtype of the first one', 'C09-r4-C091': 'as C05-r4-C052', 'C09-r4-C092': 'loaded factors placed with `tensor.to(weight)` (dtype follows the parameter)', 'C10-r4-C101': '`.to(dtype, memory_format=contiguous_format)` for `.contiguous()` in `set_grad`', 'C10-r4-C102': "skip patterns matched against `name.lstrip('module.')`", 'C11-r4-C013': '`all_gather_into_tensor` + view/movedim/flatten for gather + `cat(dim)`', 'C11-r4-C014': 'one dense copy viewed as `(P, *chunk)` and unbound (splits dim 0 only)', 'C12-r4-C021': 'bounds test `group[0] <= rank <= group[-1]` in `get_group_with_rank`', 'C12-r4-C022': 'as C03-r4-C032', 'C13-r4-C033': 'two guarded terms merged into one conditional expression (precedence)', 'C13-r4-C034': '`memory_usage` reads the raw slots and counts only tensors', 'C14-r4-C043': 'EAFP: `get_triu()` ValueError translated, after the early exits', 'C14-r4-C044': '`U + Uᵀ - diag(U)` for the mirror scatter', 'C15-r4-C053': 'pad amounts `(p1, p0) * 2`', 'C15-r4-C054': 'pointwise fast path through `permute(0, 2, 3, 1)` ignoring the stride', 'C16-r4-C063': '`next(params, None)` consumes the first parameter before `all()`', 'C16-r4-C064': "one alternation `'|'.join(patterns)` searched", 'C17-r4-C073': 'running group-load table updated once per layer', 'C17-r4-C074': '`_argmin` by `math.isclose` to the minimum', 'C18-r4-C083': '`found_name.endswith(name)` for `==`', 'C18-r4-C084': 'directory load split into read loop / decompose loop over recorded names', 'C19-r4-C093': '`inspect.isfunction` for `callable`', 'C19-r4-C094': '`nonlocal` running maximum in the averaging closure', 'C20-r4-C103': "`sync=sync` forwarded into the traced function's keyword arguments", 'C20-r4-C104': 'averages computed after the loop from `len(times)` of the last function'}


def main() -> None:
    res = json.load(open(sys.argv[1]))
    rnd = sys.argv[2] if len(sys.argv) > 2 else 'r2'
    table = {'r2': SHORT, 'r3': SHORT3, 'r4': SHORT4}[rnd]
    by = {r['id'][5:]: r for r in res if r['id'].startswith('seed-') and f'-{rnd}-' in r['id']}
    for k in sorted(table):
        r = by.get(k)
        if r is None:
            out = 'not run'
        elif r.get('rc') == 1:
            out = ', '.join(sorted(set(r.get('rules') or [])))
        elif r.get('rc') == 2:
            out = '**INCOMPLETE** (exit 2)'
        else:
            out = '**missed**'
        print(f'| {k} | {table[k]} | {out} |')


if __name__ == '__main__':
    main()
