#!/venv/bin/python
"""Run every silent twin of the corpus against EVERY check (a twin of property X must not alarm property Y either)."""
from __future__ import annotations
import concurrent.futures as cf, glob, os, sys
sys.path.insert(0, os.path.dirname(os.path.abspath(__file__)))
sys.path.insert(0, os.path.dirname(os.path.dirname(os.path.abspath(__file__))))
import run_selftest
from selftest import corpus

props = sorted(os.path.basename(f)[:-3].upper() for f in glob.glob('/verif/kfv/rules/c[0-9][0-9].py'))
only_generic = '--generic' in sys.argv
twins = [c for c in corpus.CASES if c['expect'] == 'silent' and (not only_generic or c['prop'] == '*')]
jobs = []
for t in twins:
    for p in props:
        c = dict(t); c['prop'] = p
        jobs.append(c)
bad = 0
with cf.ThreadPoolExecutor(max_workers=16) as ex:
    for c, r in zip(jobs, ex.map(run_selftest.run_case, jobs)):
        if r['outcome'] not in ('PASS', 'SKIPPED'):
            bad += 1
            print(f"{r['outcome']} twin={c['id']} check={c['prop']} rc={r.get('rc')} rules={r.get('rules')} :: {r['detail'].strip().splitlines()[0][:260] if r['detail'].strip() else ''}")
print(f'{len(jobs)} runs ({len(twins)} twins x {len(props)} checks), {bad} alarms')
