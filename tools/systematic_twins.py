#!/venv/bin/python
"""Whole-package behaviour-preserving rewrites (twins by construction) × every check.

usage: systematic_twins.py [--repo /repo] [--props C03,C08] [--suite]
For each rewrite (alpha-renaming of every local, private-function renaming, if/else inversion, ==/!= operand
exchange, dropping / adding redundant else, extracting / inlining temporaries, and all of them combined) a scratch
copy of <repo>/kfac is rewritten under /tmp, every check is run with --repo <scratch> and must exit 0; the scratch
copy is removed.  --suite additionally runs the repository's own test-suite on each rewritten tree (it must pass:
that is what makes the rewrite a twin).
"""
from __future__ import annotations

import argparse
import concurrent.futures as cf
import glob
import os
import re
import shutil
import subprocess
import sys
import tempfile

HERE = os.path.dirname(os.path.abspath(__file__))
ROOT = os.path.dirname(HERE)
PY = '/venv/bin/python'

# private names the test-suite does not mention (renaming the others is not a twin: the tests call them)
PRIVATE = {'_get_allreduce_bucket': '_open_bucket', '_extract_patches': '_unfold_patches', '_save_input': '_on_forward', '_mock_new_group': '_no_group'}


def make(kind: str, repo: str, dst: str) -> None:
    src = os.path.join(repo, 'kfac')
    out = os.path.join(dst, 'kfac')
    if kind == 'alpha':
        subprocess.run([PY, os.path.join(HERE, 'alpha_rename.py'), src, out, 'ALL'], check=True, capture_output=True)
    elif kind == 'private':
        shutil.copytree(src, out)
        for f in glob.glob(os.path.join(out, '**', '*.py'), recursive=True):
            s = open(f).read()
            for a, b in PRIVATE.items():
                s = re.sub(rf'\b{a}\b', b, s)
            open(f, 'w').write(s)
    elif kind == 'combined-safe':
        # rewrites that are behaviour-preserving on *any* code (expand-aug is only so where every augmented
        # assignment is on Python numbers, which holds for the pinned tree but not for arbitrary changes)
        tmp = out + '_1'
        subprocess.run([PY, os.path.join(HERE, 'twin_transforms.py'), src, tmp, 'invert-if,flip-eq,else-return,extract-var,to-keyword'], check=True, capture_output=True)
        subprocess.run([PY, os.path.join(HERE, 'alpha_rename.py'), tmp, out, 'ALL', '_q'], check=True, capture_output=True)
        shutil.rmtree(tmp)
    elif kind == 'combined':
        tmp = out + '_1'
        subprocess.run([PY, os.path.join(HERE, 'twin_transforms.py'), src, tmp, 'invert-if,flip-eq,else-return,extract-var,expand-aug,to-keyword'], check=True, capture_output=True)
        subprocess.run([PY, os.path.join(HERE, 'alpha_rename.py'), tmp, out, 'ALL', '_q'], check=True, capture_output=True)
        shutil.rmtree(tmp)
    else:
        subprocess.run([PY, os.path.join(HERE, 'twin_transforms.py'), src, out, kind], check=True, capture_output=True)


def main() -> int:
    ap = argparse.ArgumentParser()
    ap.add_argument('--repo', default='/repo')
    ap.add_argument('--props', default='')
    ap.add_argument('--kinds', default='alpha,private,invert-if,flip-eq,else-return,add-else,extract-var,inline-var,to-keyword,to-positional,expand-aug,add-logging,comp-to-loop,swap-adjacent,combined')
    ap.add_argument('--suite', action='store_true')
    a = ap.parse_args()
    props = [p for p in a.props.split(',') if p] or sorted(os.path.basename(f)[:-3].upper() for f in glob.glob(os.path.join(ROOT, 'kfv', 'rules', 'c[0-9][0-9].py')))
    bad = 0
    for kind in a.kinds.split(','):
        d = tempfile.mkdtemp(prefix=f'kfv_tw_{kind}_')
        try:
            make(kind, a.repo, d)
            line = f'{kind:12s}'
            if a.suite:
                for x in ('tests', 'testing'):
                    shutil.copytree(os.path.join(a.repo, x), os.path.join(d, x))
                r = subprocess.run([PY, '-m', 'pytest', '-q', '-p', 'no:cacheprovider', '--timeout=900', 'tests'], cwd=d, env=dict(os.environ, PYTHONPATH=d), capture_output=True, text=True)
                tail = [ln for ln in r.stdout.splitlines() if ' passed' in ln or ' failed' in ln]
                line += f' suite: {tail[-1] if tail else r.returncode} |'

            def one(p: str) -> tuple[str, int, str]:
                ev = os.path.join(d, 'ev_' + p)
                r = subprocess.run([PY, os.path.join(ROOT, 'check.py'), p, '--repo', d, '--evidence-dir', ev], capture_output=True, text=True)
                return p, r.returncode, ' '.join(sorted(set(re.findall(r'rule=(\S+)', r.stdout)))) or (r.stdout.strip().splitlines() or [''])[-1][:120]
            with cf.ThreadPoolExecutor(max_workers=8) as ex:
                res = list(ex.map(one, props))
            alarms = [(p, rc, why) for p, rc, why in res if rc != 0]
            bad += len(alarms)
            print(line + (' all checks silent' if not alarms else ' ALARMS: ' + '; '.join(f'{p}:{rc}[{why}]' for p, rc, why in alarms)), flush=True)
        finally:
            shutil.rmtree(d, ignore_errors=True)
    print(f'{bad} alarm(s)')
    return 1 if bad else 0


if __name__ == '__main__':
    sys.exit(main())
