#!/venv/bin/python
"""Canonicalisation must not hide a changed behaviour: every seeded change, rewritten by the whole-package twin
generators (alpha-renaming + inversion + extraction ...), must still be reported by the check of its own property;
and every refactoring twin, rewritten the same way, must still be silent on every check.

usage: seeds_under_rewrite.py [--seeds] [--twins] [--jobs 12] [--kind combined]
"""
from __future__ import annotations

import argparse
import concurrent.futures as cf
import glob
import json
import os
import re
import shutil
import subprocess
import sys
import tempfile

HERE = os.path.dirname(os.path.abspath(__file__))
ROOT = os.path.dirname(HERE)
PY = '/venv/bin/python'
sys.path.insert(0, HERE)
import systematic_twins as sysw  # noqa: E402


def run(patch: str, props: list[str], kind: str) -> dict[str, tuple[int, str]]:
    d = tempfile.mkdtemp(prefix='kfv_sr_')
    try:
        base = os.path.join(d, 'base')
        os.makedirs(base)
        shutil.copytree('/repo/kfac', os.path.join(base, 'kfac'))
        r = subprocess.run(['patch', '-p1', '-s', '--no-backup-if-mismatch', '-i', patch], cwd=base, capture_output=True, text=True)
        if r.returncode != 0:
            return {p: (-2, 'patch does not apply') for p in props}
        out = os.path.join(d, 'tw')
        os.makedirs(out)
        try:
            sysw.make(kind, base, out)
        except subprocess.CalledProcessError as e:
            return {p: (-3, f'rewrite failed: {e.stderr[-200:] if e.stderr else e}') for p in props}
        res = {}
        for p in props:
            r = subprocess.run([PY, os.path.join(ROOT, 'check.py'), p, '--repo', out, '--evidence-dir', os.path.join(d, 'ev')], capture_output=True, text=True)
            res[p] = (r.returncode, ' '.join(sorted(set(re.findall(r'rule=(\S+)', r.stdout)))) or (r.stdout.strip().splitlines() or [''])[-1][:160])
        return res
    finally:
        shutil.rmtree(d, ignore_errors=True)


def main() -> int:
    ap = argparse.ArgumentParser()
    ap.add_argument('--seeds', action='store_true')
    ap.add_argument('--twins', action='store_true')
    ap.add_argument('--kind', default='combined-safe')
    ap.add_argument('--jobs', type=int, default=12)
    a = ap.parse_args()
    allprops = sorted(os.path.basename(f)[:-3].upper() for f in glob.glob(os.path.join(ROOT, 'kfv', 'rules', 'c[0-9][0-9].py')))
    jobs = []
    if a.seeds or not a.twins:
        for d in sorted(glob.glob(os.path.join(ROOT, 'seeded', '*'))):
            mf, pf = os.path.join(d, 'meta.json'), os.path.join(d, 'patch.diff')
            if os.path.exists(mf) and os.path.exists(pf):
                jobs.append(('seed', os.path.basename(d), pf, [json.load(open(mf))['property']]))
    if a.twins:
        for d in sorted(glob.glob(os.path.join(ROOT, 'twins', '*'))):
            pf = os.path.join(d, 'patch.diff')
            if os.path.exists(pf):
                jobs.append(('twin', os.path.basename(d), pf, allprops))
    bad = 0
    with cf.ThreadPoolExecutor(max_workers=a.jobs) as ex:
        for (kind, name, _pf, props), res in zip(jobs, ex.map(lambda j: run(j[2], j[3], a.kind), jobs)):
            if kind == 'seed':
                (p, (rc, why)), = res.items()
                ok = rc == 1
                bad += not ok
                print(f'{"ok  " if ok else "MISS"} seed {name:12s} {p}: rc={rc} {why[:120]}', flush=True)
            else:
                alarms = {p: v for p, v in res.items() if v[0] != 0}
                bad += bool(alarms)
                print(f'{"ok  " if not alarms else "NOISY"} twin {name:8s} ' + '; '.join(f'{p}:{rc}[{why[:60]}]' for p, (rc, why) in alarms.items()), flush=True)
    print(f'{bad} problem(s) in {len(jobs)} case(s)')
    return 1 if bad else 0


if __name__ == '__main__':
    sys.exit(main())
