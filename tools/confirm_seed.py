#!/venv/bin/python
"""Confirm a sub-agent's seeded change in a fresh scratch worktree of /repo and keep it under /verif/seeded.

usage: confirm_seed.py /tmp/wt/C05/out/1 [...]
For each: worktree add (HEAD) -> demo passes; apply patch -> demo fails, full suite passes; remove worktree.
"""
from __future__ import annotations

import glob
import json
import os
import shutil
import subprocess
import sys
import tempfile
import time

PY = '/venv/bin/python'


def sh(cmd, cwd=None, env=None, timeout=1500):
    r = subprocess.run(cmd, cwd=cwd, env=env, capture_output=True, text=True, timeout=timeout)
    return r.returncode, (r.stdout + r.stderr)


def confirm(src: str) -> dict:
    prop = json.load(open(os.path.join(src, 'meta.json')))['property'] if os.path.exists(os.path.join(src, 'meta.json')) else '?'
    n = os.path.basename(src.rstrip('/'))
    name = f'{prop}-r7-{src.rstrip("/").split("/")[-3]}{n}' if '/w7/' in src else f'{prop}-r2-{n}' if '/w2/' in src else (f'{prop}-r3-{n}' if '/w3/' in src else (f'{prop}-r4-{src.rstrip("/").split("/")[-3]}{n}' if '/w4/' in src else (f'{prop}-r5-{src.rstrip("/").split("/")[-3]}{n}' if '/w5/' in src else (f'{prop}-r6-{src.rstrip("/").split("/")[-3]}{n}' if '/w6/' in src else f'{prop}-{n}'))))
    if not os.path.exists(os.path.join(src, 'meta.json')) or not os.path.exists(os.path.join(src, 'patch.diff')):
        return {'seed': name, 'source': src, 'status': 'incomplete'}
    wt = tempfile.mkdtemp(prefix=f'seedwt_{name}_', dir='/tmp')
    os.rmdir(wt)
    res = {'seed': name, 'source': src}
    try:
        rc, out = sh(['git', '-C', '/repo', 'worktree', 'add', '-q', '--detach', wt, 'HEAD'])
        if rc:
            return {**res, 'status': 'worktree-failed', 'detail': out}
        env = dict(os.environ, PYTHONPATH=wt, REPO_ROOT=wt)
        demos = [f for f in ('demo.py', 'demo_test.py') if os.path.exists(os.path.join(src, f))]
        if not demos:
            return {**res, 'status': 'no-demo'}
        demo = os.path.join(src, demos[0])
        def run_demo():
            if demos[0] == 'demo_test.py':
                return sh([PY, '-m', 'pytest', '-q', '-p', 'no:cacheprovider', demo], cwd=wt, env=env, timeout=400)
            return sh([PY, demo, wt], cwd=wt, env=env, timeout=400)
        t0 = time.time()
        rc0, out0 = run_demo()
        res['demo_unchanged_rc'] = rc0
        rc, out = sh(['git', 'apply', os.path.join(src, 'patch.diff')], cwd=wt)
        if rc:
            rc, out = sh(['patch', '-p1', '--fuzz=3', '-i', os.path.join(src, 'patch.diff')], cwd=wt)
            res['applied_with'] = 'patch --fuzz'
            if rc:
                return {**res, 'status': 'patch-does-not-apply', 'detail': out[-500:]}
        rc1, out1 = run_demo()
        res['demo_changed_rc'] = rc1
        res['demo_changed_tail'] = out1[-600:]
        rcs, outs = sh([PY, '-m', 'pytest', '-q', '-p', 'no:cacheprovider', '--timeout=900', 'tests'], cwd=wt, env=env, timeout=1500)
        tail = outs.strip().splitlines()[-1] if outs.strip() else ''
        if rcs != 0:
            # load-induced worker time-outs: re-run only the failed tests (up to twice) before rejecting
            import re as _re
            failed = sorted(set(_re.findall(r'^(?:FAILED|ERROR) (tests/\S+)', outs, _re.M)))
            res['suite_first_run'] = tail
            for _try in range(2):
                if not failed:
                    break
                rc2, out2 = sh([PY, '-m', 'pytest', '-q', '-p', 'no:cacheprovider', '--timeout=900'] + failed, cwd=wt, env=env, timeout=1500)
                failed = sorted(set(_re.findall(r'^(?:FAILED|ERROR) (tests/\S+)', out2, _re.M))) if rc2 != 0 else []
            if not failed and 'passed' in tail:
                rcs = 0
                tail += ' (failures of the first run were worker time-outs under load: all passed when re-run in isolation)'
        res['suite_rc'] = rcs
        res['suite_tail'] = tail
        res['wall_s'] = round(time.time() - t0)
        ok = rc0 == 0 and rc1 != 0 and rcs == 0
        res['status'] = 'confirmed' if ok else 'rejected'
        if ok:
            dst = os.path.join('/verif/seeded', name)
            os.makedirs(dst, exist_ok=True)
            # store the diff relative to the current HEAD of /repo
            rc, diff = sh(['git', 'diff', '--', 'kfac'], cwd=wt)
            open(os.path.join(dst, 'patch.diff'), 'w').write(diff)
            shutil.copy(demo, os.path.join(dst, demos[0]))
            meta = json.load(open(os.path.join(src, 'meta.json')))
            meta['confirmed'] = {
                'repo_head': sh(['git', '-C', '/repo', 'rev-parse', '--short', 'HEAD'])[1].strip(),
                'ran': [f'{PY} {demos[0]} <worktree>  (unchanged: rc {rc0}; with change: rc {rc1})',
                        f'{PY} -m pytest -q -p no:cacheprovider --timeout=900 tests  (with change: {tail})'],
            }
            json.dump(meta, open(os.path.join(dst, 'meta.json'), 'w'), indent=1)
        return res
    finally:
        sh(['git', '-C', '/repo', 'worktree', 'remove', '--force', wt])
        shutil.rmtree(wt, ignore_errors=True)


if __name__ == '__main__':
    import concurrent.futures as cf
    srcs = sys.argv[1:]
    with cf.ThreadPoolExecutor(max_workers=3) as ex:
        for r in ex.map(confirm, srcs):
            print(json.dumps(r)[:900], flush=True)
