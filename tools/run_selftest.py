#!/venv/bin/python
"""Two-way test of the checkers: must-fire mutants and silent twins.

Each case edits a scratch copy of /repo/kfac by exact substring replacement
(a case whose anchor text is gone is reported as SKIPPED, not failed), runs
the property's check with --repo <scratch> and compares the outcome:
  fire   -> exit 1 and (if given) the named rule among the reported rules
  silent -> exit 0
usage: selftest.py [--props C03,C20] [--jobs 16] [--json out.json] [--ids id1,id2]
"""
from __future__ import annotations

import argparse
import concurrent.futures as cf
import json
import os
import re
import shutil
import subprocess
import sys
import tempfile
import time

ROOT = os.path.dirname(os.path.dirname(os.path.abspath(__file__)))
sys.path.insert(0, ROOT)


def load_corpus() -> list[dict]:
    from selftest import corpus
    return corpus.CASES


def load_patch_cases(prop: str | None = None) -> list[dict]:
    """Patch-form cases: confirmed seeded changes (must fire on their own property) and behaviour-preserving
    refactoring twins (must stay silent on every property)."""
    import glob
    out = []
    for d in sorted(glob.glob(os.path.join(ROOT, 'seeded', '*'))):
        mf, pf = os.path.join(d, 'meta.json'), os.path.join(d, 'patch.diff')
        if not (os.path.exists(mf) and os.path.exists(pf)):
            continue
        own = json.load(open(mf)).get('property')
        if prop is None or own == prop:
            out.append({'id': 'seed-' + os.path.basename(d), 'prop': own, 'rule': None, 'what': 'seeded change ' + os.path.basename(d), 'expect': 'fire', 'edits': [], 'patch': pf})
    props = [prop] if prop else sorted(os.path.basename(f)[:-3].upper() for f in glob.glob(os.path.join(ROOT, 'kfv', 'rules', 'c[0-9][0-9].py')))
    for d in sorted(glob.glob(os.path.join(ROOT, 'twins', '*'))):
        pf = os.path.join(d, 'patch.diff')
        if os.path.exists(pf):
            for pr in props:
                out.append({'id': f'twin-{os.path.basename(d)}-{pr}', 'prop': pr, 'rule': None, 'what': 'refactoring twin ' + os.path.basename(d), 'expect': 'silent', 'edits': [], 'patch': pf})
    return out


def run_case(case: dict, repo: str = '/repo') -> dict:
    d = tempfile.mkdtemp(prefix='kfv_st_')
    t0 = time.time()
    try:
        shutil.copytree(os.path.join(repo, 'kfac'), os.path.join(d, 'kfac'))
        if case.get('patch'):
            r = subprocess.run(['patch', '-p1', '-s', '--no-backup-if-mismatch', '-i', case['patch']], cwd=d, capture_output=True, text=True)
            if r.returncode != 0:
                return {**_brief(case), 'outcome': 'SKIPPED', 'detail': 'patch does not apply to the analysed tree: ' + (r.stdout + r.stderr)[-200:]}
        for path, old, new in case['edits']:
            fp = os.path.join(d, path)
            s = open(fp).read()
            if s.count(old) != 1:
                return {**_brief(case), 'outcome': 'SKIPPED', 'detail': f'anchor text occurs {s.count(old)}x in {path}'}
            open(fp, 'w').write(s.replace(old, new))
        # mutants must still be importable python
        for path, _o, _n in case['edits']:
            r = subprocess.run(['/venv/bin/python', '-m', 'py_compile', os.path.join(d, path)], capture_output=True, text=True)
            if r.returncode != 0:
                return {**_brief(case), 'outcome': 'BROKEN-CASE', 'detail': r.stderr[-300:]}
        ev = os.path.join(d, 'ev')
        os.makedirs(ev)
        r = subprocess.run(['/venv/bin/python', os.path.join(ROOT, 'check.py'), case['prop'], '--repo', d, '--evidence-dir', ev],
                           capture_output=True, text=True, timeout=600)
        rules = re.findall(r'^\s+rule=(\S+)', r.stdout, re.M)
        if case['expect'] == 'fire':
            ok = r.returncode == 1 and (not case.get('rule') or case['rule'] in rules)
        else:
            ok = r.returncode == 0
        return {**_brief(case), 'outcome': 'PASS' if ok else 'FAIL', 'rc': r.returncode, 'rules': rules,
                'detail': '' if ok else r.stdout[-1500:] + r.stderr[-500:], 'wall_s': round(time.time() - t0, 1)}
    finally:
        shutil.rmtree(d, ignore_errors=True)


def _brief(c: dict) -> dict:
    return {'id': c['id'], 'prop': c['prop'], 'expect': c['expect'], 'rule': c.get('rule'), 'what': c.get('what', '')}


def run_all(props: list[str] | None, jobs: int, ids: list[str] | None = None, patches: bool = False) -> list[dict]:
    cases = [c for c in load_corpus() if c['prop'] != '*' and (not props or c['prop'] in props) and (not ids or c['id'] in ids)]
    if patches:
        cases += [c for c in load_patch_cases() if (not props or c['prop'] in props) and (not ids or c['id'] in ids)]
    with cf.ThreadPoolExecutor(max_workers=jobs) as ex:
        return list(ex.map(run_case, cases))


if __name__ == '__main__':
    ap = argparse.ArgumentParser()
    ap.add_argument('--props', default='')
    ap.add_argument('--ids', default='')
    ap.add_argument('--jobs', type=int, default=16)
    ap.add_argument('--json', default='')
    ap.add_argument('--patches', action='store_true', help='also run the patch-form cases (seeded/*, twins/*)')
    a = ap.parse_args()
    res = run_all([x for x in a.props.split(',') if x] or None, a.jobs, [x for x in a.ids.split(',') if x] or None, a.patches)
    bad = 0
    for r in res:
        flag = r['outcome']
        if flag in ('FAIL', 'BROKEN-CASE'):
            bad += 1
        print(f"{flag:11s} {r['prop']} {r['id']:28s} expect={r['expect']:6s} rule={r.get('rule')} got_rc={r.get('rc')} rules={r.get('rules')} {r.get('what','')[:60]}")
        if flag in ('FAIL', 'BROKEN-CASE'):
            print('    ' + r['detail'].replace('\n', '\n    ')[:1200])
    n = len(res)
    print(f'{n} cases: {sum(r["outcome"]=="PASS" for r in res)} pass, {bad} fail, {sum(r["outcome"]=="SKIPPED" for r in res)} skipped')
    if a.json:
        json.dump(res, open(a.json, 'w'), indent=1)
    sys.exit(1 if bad else 0)
