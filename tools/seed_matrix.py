#!/venv/bin/python
"""Run the checks of the given properties against every seeded patch; print a compact matrix.
usage: seed_matrix.py [--props C03,C05] [--seeds dir1,dir2 | default: /verif/seeded/* and /tmp/wt/*/out/*]"""
from __future__ import annotations
import concurrent.futures as cf
import glob, os, re, sys, json
sys.path.insert(0, os.path.dirname(os.path.abspath(__file__)))
import try_patch

def main():
    import argparse
    ap = argparse.ArgumentParser()
    ap.add_argument('--props', default='')
    ap.add_argument('--seeds', default='')
    ap.add_argument('--own', action='store_true', help='only check each seed against its own property')
    a = ap.parse_args()
    seeds = [s for s in a.seeds.split(',') if s] or sorted(glob.glob('/verif/seeded/*')) or sorted(glob.glob('/tmp/wt/*/out/[12]'))
    impl = sorted(os.path.basename(f)[:-3].upper() for f in glob.glob('/verif/kfv/rules/c[0-9][0-9].py'))
    props = [p for p in a.props.split(',') if p] or impl
    def one(s):
        pf = os.path.join(s, 'patch.diff')
        if not os.path.exists(pf):
            return s, None
        meta = json.load(open(os.path.join(s, 'meta.json'))) if os.path.exists(os.path.join(s, 'meta.json')) else {}
        own = meta.get('property', '?')
        ps = [p for p in props if (not a.own or p == own)]
        res = try_patch.run(pf, ps) if ps else {}
        return s, (own, {p: (rc, sorted(set(re.findall(r'rule=(\S+)', out)))) for p, (rc, out) in res.items()})
    with cf.ThreadPoolExecutor(max_workers=8) as ex:
        for s, r in ex.map(one, seeds):
            if r is None:
                print(f'{s}: no patch'); continue
            own, d = r
            hit = {p: v for p, v in d.items() if v[0] != 0}
            own_rc = d.get(own, ('-', []))
            print(f'{s.replace("/tmp/wt/","").replace("/verif/seeded/","")}: own={own} own_rc={own_rc[0]} {own_rc[1]} | other hits: ' + ', '.join(f'{p}:{v[0]}{v[1]}' for p, v in hit.items() if p != own))
main()
