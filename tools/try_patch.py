#!/venv/bin/python
"""Run checks against a scratch copy of /repo with a patch applied (never touches /repo).

usage: try_patch.py <patch.diff | revert:<commit>> <ID>[,<ID>...] [--keep]
"""
from __future__ import annotations

import os
import shutil
import subprocess
import sys
import tempfile


def run(patch: str, props: list[str], quiet: bool = False) -> dict[str, tuple[int, str]]:
    d = tempfile.mkdtemp(prefix='kfv_scratch_')
    try:
        shutil.copytree('/repo/kfac', os.path.join(d, 'kfac'))
        if patch.startswith('revert:'):
            diff = subprocess.check_output(['git', '-C', '/repo', 'show', patch[7:], '--', 'kfac'])
            subprocess.run(['patch', '-R', '-p1', '-s'], input=diff, cwd=d, check=True)
        elif patch != 'none':
            subprocess.run(['patch', '-p1', '-s', '-i', os.path.abspath(patch)], cwd=d, check=True)
        out = {}
        for pid in props:
            ev = os.path.join(d, 'evidence')
            os.makedirs(ev, exist_ok=True)
            r = subprocess.run(['/venv/bin/python', '/verif/check.py', pid, '--repo', d, '--evidence-dir', ev],
                               capture_output=True, text=True)
            out[pid] = (r.returncode, r.stdout + r.stderr)
        return out
    finally:
        shutil.rmtree(d, ignore_errors=True)


if __name__ == '__main__':
    res = run(sys.argv[1], sys.argv[2].split(','))
    for pid, (rc, txt) in res.items():
        print(f'--- {pid} rc={rc}')
        print(txt.strip()[:3000])
