#!/venv/bin/python
"""Systematic twin generator: alpha-rename every local variable of every function in one module.

usage: alpha_rename.py <src kfac dir> <dst kfac dir> <module relpath | ALL> [suffix]
Copies src to dst and rewrites the chosen module(s) with each function-local name N (assigned in the function, not a
parameter, not global/nonlocal) renamed to N + suffix, consistently in nested functions, lambdas and comprehensions
that do not rebind it.  The result is behaviourally identical (the test-suite confirms it); every check must stay silent.
"""
from __future__ import annotations

import ast
import os
import shutil
import sys


def _own_nodes(fn: ast.AST):  # noqa: ANN202
    """Nodes of fn's body excluding nested function / class bodies (lambdas and comprehensions included)."""
    stack = list(fn.body) if not isinstance(fn, ast.Lambda) else [fn.body]  # type: ignore[attr-defined]
    while stack:
        n = stack.pop()
        yield n
        if isinstance(n, (ast.FunctionDef, ast.AsyncFunctionDef, ast.ClassDef)):
            # decorators / defaults are evaluated in the enclosing scope
            stack.extend(n.decorator_list)
            if not isinstance(n, ast.ClassDef):
                stack.extend(d for d in n.args.defaults + n.args.kw_defaults if d is not None)
            continue
        stack.extend(ast.iter_child_nodes(n))


def _params(fn: ast.AST) -> set[str]:
    a = fn.args  # type: ignore[attr-defined]
    out = {x.arg for x in a.posonlyargs + a.args + a.kwonlyargs}
    if a.vararg:
        out.add(a.vararg.arg)
    if a.kwarg:
        out.add(a.kwarg.arg)
    return out


def locals_of(fn: ast.AST) -> set[str]:
    stored: set[str] = set()
    declared: set[str] = set()
    for n in _own_nodes(fn):
        if isinstance(n, ast.Name) and isinstance(n.ctx, (ast.Store, ast.Del)):
            stored.add(n.id)
        elif isinstance(n, (ast.Global, ast.Nonlocal)):
            declared |= set(n.names)
        elif isinstance(n, (ast.FunctionDef, ast.AsyncFunctionDef, ast.ClassDef)):
            pass          # nested def names stay (they may be referenced by string elsewhere: keep it simple)
        elif isinstance(n, (ast.Import, ast.ImportFrom)):
            declared |= {(a.asname or a.name).split('.')[0] for a in n.names}
        elif isinstance(n, ast.ExceptHandler) and n.name:
            declared.add(n.name)
    return stored - declared - _params(fn)


class Renamer(ast.NodeTransformer):
    def __init__(self, suffix: str) -> None:
        self.suffix = suffix
        self.active: list[set[str]] = []
        self.count = 0

    def _cur(self) -> set[str]:
        out: set[str] = set()
        for s in self.active:
            out |= s
        return out

    def _visit_func(self, fn):  # noqa: ANN001, ANN202
        outer = self._cur()
        own = locals_of(fn) if not isinstance(fn, ast.Lambda) else set()
        shadow = _params(fn) | ({n.id for n in _own_nodes(fn) if isinstance(n, ast.Name) and isinstance(n.ctx, ast.Store)} if not isinstance(fn, ast.Lambda) else set())
        # names of the enclosing function stay renamed here unless this scope rebinds them
        inherited = outer - shadow
        # nonlocal declarations refer to the enclosing function's (renamed) variable
        nonloc = set()
        if not isinstance(fn, ast.Lambda):
            for n in _own_nodes(fn):
                if isinstance(n, ast.Nonlocal):
                    nonloc |= set(n.names)
        inherited |= (outer & nonloc)
        saved = self.active
        self.active = [inherited, own - nonloc]
        if isinstance(fn, ast.Lambda):
            fn.body = self.visit(fn.body)
        else:
            fn.body = [self.visit(st) for st in fn.body]
            for n in ast.walk(fn):
                if isinstance(n, ast.Nonlocal) and n in list(_own_nodes(fn)):
                    n.names = [x + self.suffix if x in outer else x for x in n.names]
        self.active = saved
        # decorators / defaults in the enclosing scope
        if not isinstance(fn, ast.Lambda):
            fn.decorator_list = [self.visit(d) for d in fn.decorator_list]
        fn.args.defaults = [self.visit(d) for d in fn.args.defaults]
        fn.args.kw_defaults = [self.visit(d) if d is not None else None for d in fn.args.kw_defaults]
        return fn

    def visit_FunctionDef(self, n):  # noqa: ANN001, ANN201, N802
        return self._visit_func(n)

    def visit_AsyncFunctionDef(self, n):  # noqa: ANN001, ANN201, N802
        return self._visit_func(n)

    def visit_Lambda(self, n):  # noqa: ANN001, ANN201, N802
        return self._visit_func(n)

    def visit_ClassDef(self, n):  # noqa: ANN001, ANN201, N802
        saved = self.active
        # a class body nested in a function still sees the function's locals (rare): keep them
        n.body = [self.visit(st) for st in n.body]
        self.active = saved
        return n

    def visit_Name(self, n: ast.Name):  # noqa: ANN201, N802
        if n.id in self._cur():
            self.count += 1
            return ast.copy_location(ast.Name(id=n.id + self.suffix, ctx=n.ctx), n)
        return n


def rename_source(src: str, suffix: str) -> tuple[str, int]:
    tree = ast.parse(src)
    r = Renamer(suffix)
    tree = r.visit(tree)
    ast.fix_missing_locations(tree)
    return ast.unparse(tree) + '\n', r.count


def main() -> None:
    src, dst, which = sys.argv[1], sys.argv[2], sys.argv[3]
    suffix = sys.argv[4] if len(sys.argv) > 4 else '_v'
    if os.path.exists(dst):
        shutil.rmtree(dst)
    shutil.copytree(src, dst)
    total = 0
    for dirpath, _d, files in os.walk(dst):
        for fn in files:
            if not fn.endswith('.py'):
                continue
            rel = os.path.relpath(os.path.join(dirpath, fn), dst)
            if which != 'ALL' and rel != which:
                continue
            p = os.path.join(dirpath, fn)
            out, n = rename_source(open(p).read(), suffix)
            open(p, 'w').write(out)
            total += n
    print(f'renamed {total} name occurrences')


if __name__ == '__main__':
    main()
